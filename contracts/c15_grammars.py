"""C15 - Grammars stay well-formed under edits and validate exactly their definition.

Functions under contract: RequiredNames, Defaults, SimpleGrammar (all methods reached) and the template
methods of BaseGrammar, verified for the SimpleGrammar instantiation of its abstract methods
(``self_class``): a grammar is the object graph

    grammar --_defaults--> Defaults(__data, __grammar --> grammar)
            --_required_names--> RequiredNames(__names, __grammar --> grammar)

Abstract view of a grammar: names -> types (``__names_to_types``), required set (``__names``), defaults
(``__data``).  Representation invariant WFG: required names and default keys are element names, and the
two parts are bound to the grammar itself.  Types and data values are opaque values; ``isinstance`` is an
uninterpreted predicate over (value, type object).
"""
from __future__ import annotations

import z3

from pyvc import contract as C
from pyvc.contract import Contract, LoopSpec, register, schema
from pyvc.plug_grammars import is_instance, is_type, type_const, type_of
from pyvc.values import (BuiltinV, PyObj, T, TBool, TDict, TInt, TList, TObj, TSet, TStr, TVal, Unsupported, ValS, val_none)

P = "gemseo.core.grammars."
RN = P + "required_names.RequiredNames"
DF = P + "defaults.Defaults"
BG = P + "base_grammar.BaseGrammar"
SG = P + "simple_grammar.SimpleGrammar"

NTT = TDict(TStr, TVal)  # names -> type objects (None = any type)
DATA = TDict(TStr, TVal)  # names -> values
NAMES = TSet(TStr)
NSMAP = TDict(TStr, TVal)  # namespace maps: a name or a list of names per key (opaque)
NAMELIST = TSet(TStr)  # an Iterable[str] argument (names): the functions only depend on its set of elements
NAMESEQ = TList(TStr)  # a *names argument


# ---------------------------------------------------------------------------- cyclic object graph
class TPart(TObj):
    """A component of a grammar holding a back-reference to it (``grammar._defaults.__grammar is grammar``)."""

    def __init__(self, cls, backfield):
        super().__init__(cls)
        self.backfield = backfield
        self.name = f"Part[{cls}]"

    def fresh_in(self, st, hint, owner):
        o = PyObj(self.cls, {})
        ref = st.alloc(o)
        for f, t in C.class_schema(self.cls).items():
            o.fields[f] = owner if f == self.backfield else t.fresh(st, f"{hint}.{f}")
        return ref

    def fresh(self, st, hint):
        raise Unsupported(f"{self} only exists inside its grammar")


class TBoundGrammar(TObj):
    """The grammar a Defaults / RequiredNames object is bound to.  Both situations of the real code are
    explored: the object is the grammar's own part (``grammar.defaults[...] = ...``), or a detached one bound to
    the same grammar (``Defaults(grammar, data)`` before it is installed, copies)."""

    def __init__(self, cls, partfield):
        super().__init__(cls)
        self.partfield = partfield
        self.name = f"BoundGrammar[{cls}.{partfield}]"

    def fresh_in(self, st, hint, part):
        g = TObj(self.cls).fresh(st, hint)
        if st.choose(2) == 0:
            st.heap[g.id].fields[self.partfield] = part
        return g

    def fresh(self, st, hint):
        return TObj(self.cls).fresh(st, hint)


class TMsg(T):
    """The MultiLineString an error message is accumulated in (message text is dropped)."""

    name = "Msg"

    def fresh(self, st, hint):
        return BuiltinV("msgbuilder")


class TEither(T):
    """A parameter that is verified for two kinds of argument."""

    def __init__(self, a, b):
        self.a, self.b = a, b
        self.name = f"Either[{a!r},{b!r}]"

    def fresh(self, st, hint):
        return (self.a if st.choose(2) == 0 else self.b).fresh(st, hint)


schema(RN, {"_RequiredNames__names": NAMES, "_RequiredNames__grammar": TBoundGrammar(SG, "_required_names")})
schema(DF, {"_Defaults__data": DATA, "_Defaults__grammar": TBoundGrammar(SG, "_defaults")})
schema(BG, {
    "name": TStr,
    "to_namespaced": NSMAP,
    "from_namespaced": NSMAP,
    "_defaults": TPart(DF, "_Defaults__grammar"),
    "_required_names": TPart(RN, "_RequiredNames__grammar"),
    "_data_converter": TVal,
})
schema(SG, {"_SimpleGrammar__names_to_types": NTT}, bases=[BG])
schema(P + "simpler_grammar.SimplerGrammar", {}, bases=[SG])


# ---------------------------------------------------------------------------- spec functions
def kq(name="k!g"):
    return z3.Const(name, TStr.sort())


def ntt(g):
    return g._SimpleGrammar__names_to_types


def req(g):
    return g._required_names._RequiredNames__names


def dfl(g):
    return g._defaults._Defaults__data


def elements(x):
    """names -> types of an argument that is a plain dict or a grammar."""
    return ntt(x) if isinstance(x.obj, PyObj) else x


def data_of(x):
    """The dictionary of a StrKeyMapping argument that is a plain dict or a Defaults object (of any grammar kind)."""
    return x._Defaults__data if isinstance(x.obj, PyObj) else x


def same_dict(a, b):
    k = kq("k!sd")
    return z3.And(a.n == b.n, z3.ForAll([k], z3.And(a.has(k) == b.has(k), z3.Implies(b.has(k), a.get(k) == b.get(k)))))


def same_set(a, b):
    k = kq("k!ss")
    return z3.And(a.n == b.n, z3.ForAll([k], a.member[k] == b.member[k]))


def subset_of_keys(s, d):
    k = kq("k!sub")
    return z3.ForAll([k], z3.Implies(s.member[k], d.member[k]))


def in_list(L, x):
    i = z3.Int("i!il")
    return z3.Exists([i], z3.And(0 <= i, i < L.n, L.elems[i] == x))


def member_fn(v):
    """Membership predicate of an iterable-of-names argument (set/dict view, list view, or a concrete tuple at a call site)."""
    if isinstance(v, tuple):
        return lambda x: z3.Or(*[x == TStr.embed(None, e) for e in v]) if v else z3.BoolVal(False)
    if hasattr(v.obj, "member"):
        return lambda x: v.obj.member[x]
    return lambda x: in_list(v, x)


def seq_of(v):
    """(length, element-at) of a ``*names`` argument: a concrete tuple at call sites, a list when symbolic."""
    if isinstance(v, tuple):
        def at(i):
            if not v:
                return z3.Const("no!name", TStr.sort())
            t = TStr.embed(None, v[-1])
            for j in range(len(v) - 2, -1, -1):
                t = z3.If(i == j, TStr.embed(None, v[j]), t)
            return t

        return z3.IntVal(len(v)), at
    return v.n, lambda i: v.elems[i]


def wfg(g):
    """Representation invariant of a grammar."""
    return [
        ("wfg:required-names-are-elements", subset_of_keys(req(g), ntt(g))),
        ("wfg:defaults-are-elements", subset_of_keys(dfl(g), ntt(g))),
        ("wfg:name-is-not-empty", _nonempty(g.name)),
        ("wfg:defaults-bound-to-the-grammar", z3.BoolVal(g._defaults._Defaults__grammar.ref == g.ref)),
        ("wfg:required-names-bound-to-the-grammar", z3.BoolVal(g._required_names._RequiredNames__grammar.ref == g.ref)),
    ]


def wfg_ns(g):
    """Namespace part of the invariant: every name recorded with a namespace prefix is an element (the values of the two maps -
    a name or a list of names - are opaque here).  Stated last in postconditions."""
    # CORRECTION (false alarm removed, see DESIGN.md "corrections"): the clause "every key of from_namespaced is an element" fails for
    # __delitem__, rename_element, restrict_to and update(excluded_names=...) on names carrying a namespace (stale entries stay in the
    # two namespace maps).  C15 only requires that *required names and defaults* refer to existing elements and that validation follows
    # the current definition; the namespace maps are not part of that statement, so the clause demanded more than the property and is
    # not claimed.  (The stale entries are reported as an observation in DESIGN.md.)
    return []


TYPE_DICT = type_const("dict")
TYPE_MAPPING = type_const("collections.abc.Mapping")
TYPE_NDARRAY = type_const("numpy.ndarray")


def type_facts():
    """Class objects are type objects, distinct from None and from each other."""
    cs = [TYPE_DICT, TYPE_MAPPING, TYPE_NDARRAY]
    v = z3.Const("v!tf", ValS)
    return [("types:class-objects", z3.And(z3.Distinct(val_none, *cs), *[is_type(x) for x in cs])),
            ("types:type-of", z3.ForAll([v], z3.And(is_type(type_of(v)), type_of(v) != val_none, is_instance(v, type_of(v))), patterns=[type_of(v)]))]


def type_ok(t):
    return z3.Or(t == val_none, is_type(t))


def stored_type(t):
    """SimpleGrammar generalises dict to Mapping."""
    return z3.If(t == TYPE_DICT, TYPE_MAPPING, t)


def accepts(types, required, data):
    """Definition of validity: every required name is present and every present element with a type holds an instance."""
    k = kq("k!acc")
    return z3.And(
        z3.ForAll([k], z3.Implies(required.member[k], data.member[k])),
        z3.ForAll([k], z3.Implies(z3.And(types.member[k], data.member[k], types.vals[k] != val_none), is_instance(data.vals[k], types.vals[k]))),
    )


def kept(g0, g1, *changed):
    """Everything of the abstract view (and the other fields) not listed in ``changed`` is unchanged."""
    out = []
    if "types" not in changed:
        out.append(("kept:names-to-types", same_dict(ntt(g1), ntt(g0))))
    if "required" not in changed:
        out.append(("kept:required-names", same_set(req(g1), req(g0))))
    if "defaults" not in changed:
        out.append(("kept:defaults", same_dict(dfl(g1), dfl(g0))))
    if "namespaces" not in changed:
        out.append(("kept:namespaces", z3.And(same_dict(g1.to_namespaced, g0.to_namespaced), same_dict(g1.from_namespaced, g0.from_namespaced))))
    if "name" not in changed:
        out.append(("kept:name", g1.name == g0.name))
    out.append(("kept:data-converter", g1._data_converter == g0._data_converter))
    return out


def own_fields_kept(g0, g1, types=False, converter=True):
    """Fields of the grammar object itself (for the SimpleGrammar primitives, which do not touch the parts)."""
    out = [("kept:name", g1.name == g0.name)] + ([("kept:data-converter", g1._data_converter == g0._data_converter)] if converter else []) + [
           ("kept:namespaces", z3.And(same_dict(g1.to_namespaced, g0.to_namespaced), same_dict(g1.from_namespaced, g0.from_namespaced))),
           ("kept:parts", z3.BoolVal(g1._defaults.ref == g0._defaults.ref and g1._required_names.ref == g0._required_names.ref))]
    if types:
        out.append(("kept:names-to-types", same_dict(ntt(g1), ntt(g0))))
    return out


# ---------------------------------------------------------------------------- RequiredNames
def rn_names(s):
    return s._RequiredNames__names


def rn_elements(s):
    return ntt(s._RequiredNames__grammar)


@register
class RNContains(Contract):
    targets = (RN + ".__contains__",)
    prop = ("C15",)
    params = {"name": TStr}
    returns = TBool

    def ensures(self, c):
        return [("value", c.result == rn_names(c.old.self).member[c.old.name])]


@register
class RNLen(Contract):
    targets = (RN + ".__len__",)
    prop = ("C15",)
    returns = TInt

    def ensures(self, c):
        return [("value", c.result == rn_names(c.old.self).n)]


@register
class RNAdd(Contract):
    """A name can only become required if it is an element of the bound grammar."""

    targets = (RN + ".add",)
    prop = ("C15",)
    params = {"name": TStr}
    modifies = ("self",)
    raises = {"KeyError": lambda c: z3.Not(rn_elements(c.old.self).has(c.old.name))}

    def ensures(self, c):
        s0, s1 = rn_names(c.old.self), rn_names(c.new.self)
        k = kq()
        nm = c.old.name
        return [("names", z3.ForAll([k], s1.member[k] == z3.Or(s0.member[k], k == nm))),
                ("size", s1.n == z3.If(s0.member[nm], s0.n, s0.n + 1)),
                ("still-bound", z3.BoolVal(c.new.self._RequiredNames__grammar.ref == c.old.self._RequiredNames__grammar.ref)),
                ("names-are-elements", z3.Implies(subset_of_keys(s0, rn_elements(c.old.self)), subset_of_keys(s1, rn_elements(c.new.self))))]

    def raise_ensures(self, c, exc):
        return [("unchanged", same_set(rn_names(c.new.self), rn_names(c.old.self)))]


@register
class RNDiscard(Contract):
    targets = (RN + ".discard",)
    prop = ("C15",)
    params = {"name": TStr}
    modifies = ("self",)

    def ensures(self, c):
        s0, s1 = rn_names(c.old.self), rn_names(c.new.self)
        k = kq()
        nm = c.old.name
        return [("names", z3.ForAll([k], s1.member[k] == z3.And(s0.member[k], k != nm))),
                ("size", s1.n == z3.If(s0.member[nm], s0.n - 1, s0.n)),
                ("still-bound", z3.BoolVal(c.new.self._RequiredNames__grammar.ref == c.old.self._RequiredNames__grammar.ref))]


@register
class RNDifference(Contract):
    """Read-only: the required names outside ``other``, as a new set."""

    targets = (RN + ".get_names_difference",)
    prop = ("C15",)
    params = {"other": TEither(NAMESEQ, DATA)}
    returns = NAMES
    inline_ok = True  # call sites pass dicts, sets, lists and tuples: they inline this one-liner

    def ensures(self, c):
        s0 = rn_names(c.old.self)
        k = kq()
        o = c.old.other
        inside = member_fn(o)
        return [("value", z3.ForAll([k], c.result.member[k] == z3.And(s0.member[k], z3.Not(inside(k))))),
                ("new-object", z3.BoolVal(c.result.ref != c.old.self._RequiredNames__names.ref)),
                ("read-only", same_set(rn_names(c.new.self), s0))]


@register
class RNInit(Contract):
    targets = (RN + ".__init__",)
    prop = ("C15",)
    params = {"grammar": TObj(SG), "names": NAMELIST}
    modifies = ("self",)
    inline_ok = True  # constructors are inlined at call sites (the new object's references are concrete)
    raises = {"KeyError": lambda c: z3.Not(_all_elements(c.old.names, ntt(c.old.grammar)))}

    def ensures(self, c):
        k = kq()
        s1 = rn_names(c.new.self)
        return [("names", z3.ForAll([k], s1.member[k] == member_fn(c.old.names)(k))),
                ("bound", z3.BoolVal(c.new.self._RequiredNames__grammar.ref == c.arg("grammar"))),
                ("names-are-elements", subset_of_keys(s1, ntt(c.new.grammar)))]


def _all_elements(names, d):
    k = kq("k!ae")
    return z3.ForAll([k], z3.Implies(member_fn(names)(k), d.member[k]))


# ---------------------------------------------------------------------------- Defaults
def df_data(s):
    return s._Defaults__data


def df_elements(s):
    return ntt(s._Defaults__grammar)


@register
class DFSetitem(Contract):
    """A default value can only be bound to an element name of the bound grammar."""

    targets = (DF + ".__setitem__",)
    prop = ("C15",)
    params = {"name": TStr, "value": TVal}
    modifies = ("self",)
    raises = {"KeyError": lambda c: z3.Not(df_elements(c.old.self).has(c.old.name))}

    def ensures(self, c):
        d0, d1 = df_data(c.old.self), df_data(c.new.self)
        k = kq()
        nm = c.old.name
        return [("keys", z3.ForAll([k], d1.has(k) == z3.Or(d0.has(k), k == nm))),
                ("value", d1.get(nm) == c.old.value),
                ("others-kept", z3.ForAll([k], z3.Implies(z3.And(d0.has(k), k != nm), d1.get(k) == d0.get(k)))),
                ("size", d1.n == z3.If(d0.has(nm), d0.n, d0.n + 1)),
                ("still-bound", z3.BoolVal(c.new.self._Defaults__grammar.ref == c.old.self._Defaults__grammar.ref))]

    def raise_ensures(self, c, exc):
        return [("unchanged", same_dict(df_data(c.new.self), df_data(c.old.self)))]


@register
class DFGetitem(Contract):
    targets = (DF + ".__getitem__",)
    prop = ("C15",)
    params = {"key": TStr}
    returns = TVal
    raises = {"KeyError": lambda c: z3.Not(df_data(c.old.self).has(c.old.key))}

    def ensures(self, c):
        return [("value", c.result == df_data(c.old.self).get(c.old.key))]


@register
class DFDelitem(Contract):
    targets = (DF + ".__delitem__",)
    prop = ("C15",)
    params = {"key": TStr}
    modifies = ("self",)
    raises = {"KeyError": lambda c: z3.Not(df_data(c.old.self).has(c.old.key))}

    def ensures(self, c):
        d0, d1 = df_data(c.old.self), df_data(c.new.self)
        k = kq()
        return [("keys", z3.ForAll([k], d1.has(k) == z3.And(d0.has(k), k != c.old.key))),
                ("others-kept", z3.ForAll([k], z3.Implies(d1.has(k), d1.get(k) == d0.get(k)))),
                ("size", d1.n == d0.n - 1),
                ("still-bound", z3.BoolVal(c.new.self._Defaults__grammar.ref == c.old.self._Defaults__grammar.ref))]


@register
class DFLen(Contract):
    targets = (DF + ".__len__",)
    prop = ("C15",)
    returns = TInt

    def ensures(self, c):
        return [("value", c.result == df_data(c.old.self).n)]


@register
class DFInit(Contract):
    targets = (DF + ".__init__",)
    prop = ("C15",)
    params = {"grammar": TObj(SG), "data": DATA}
    modifies = ("self",)
    inline_ok = True
    raises = {"KeyError": lambda c: z3.Not(subset_of_keys(c.old.data, ntt(c.old.grammar)))}

    def ensures(self, c):
        d1 = df_data(c.new.self)
        k = kq()
        return [("content", z3.ForAll([k], z3.And(d1.has(k) == c.old.data.has(k), z3.Implies(d1.has(k), d1.get(k) == c.old.data.get(k))))),
                ("bound", z3.BoolVal(c.new.self._Defaults__grammar.ref == c.arg("grammar"))),
                ("own-dictionary", z3.BoolVal(c.new.self._Defaults__data.ref != c.arg("data"))),
                ("keys-are-elements", subset_of_keys(d1, ntt(c.new.grammar)))]


@register
class DFCopy(Contract):
    """A copy is bound to the same grammar and owns a separate dictionary with the same content."""

    targets = (DF + ".__copy__",)
    prop = ("C15",)
    returns = TObj(DF)
    inline_ok = True

    def ensures(self, c):
        r = c.result
        return [("content", same_dict(df_data(r), df_data(c.old.self))),
                ("bound", z3.BoolVal(r._Defaults__grammar.ref == c.old.self._Defaults__grammar.ref)),
                ("own-dictionary", z3.BoolVal(r._Defaults__data.ref != c.old.self._Defaults__data.ref)),
                ("new-object", z3.BoolVal(r.ref != c.old.self.ref)),
                ("read-only", same_dict(df_data(c.new.self), df_data(c.old.self)))]


# ---------------------------------------------------------------------------- SimpleGrammar primitives
class _SG(Contract):
    prop = ("C15",)


@register
class SGGetitem(_SG):
    targets = (SG + ".__getitem__",)
    params = {"name": TStr}
    returns = TVal
    raises = {"KeyError": lambda c: z3.Not(ntt(c.old.self).has(c.old.name))}

    def ensures(self, c):
        return [("value", c.result == ntt(c.old.self).get(c.old.name))]


@register
class SGLen(_SG):
    targets = (SG + ".__len__",)
    returns = TInt

    def ensures(self, c):
        return [("value", c.result == ntt(c.old.self).n)]


@register
class SGCheckName(_SG):
    """KeyError exactly when one of the names is no element name; read-only."""

    targets = (SG + "._check_name",)
    params = {"names": NAMESEQ}
    loops = {0: LoopSpec(anchor="names", inv=lambda c, k: _check_name_inv(c, k))}

    @property
    def raises(self):
        def cond(c):
            n, at = seq_of(c.arg("names") if isinstance(c.arg("names"), tuple) else c.old.names)
            i = z3.Int("i!cn")
            return z3.Not(z3.ForAll([i], z3.Implies(z3.And(0 <= i, i < n), ntt(c.old.self).member[at(i)])))

        return {"KeyError": cond}


def _check_name_inv(c, k):
    n, at = seq_of(c.arg("names") if isinstance(c.arg("names"), tuple) else c.old.names)
    i = z3.Int("i!cni")
    return [("prefix-known", z3.ForAll([i], z3.Implies(z3.And(0 <= i, i < k), ntt(c.old.self).member[at(i)])))]


@register
class SGDelitem(_SG):
    targets = (SG + "._delitem",)
    params = {"name": TStr}
    modifies = ("self",)
    raises = {"KeyError": lambda c: z3.Not(ntt(c.old.self).has(c.old.name))}

    def ensures(self, c):
        t0, t1 = ntt(c.old.self), ntt(c.new.self)
        k = kq()
        return [("names", z3.ForAll([k], t1.has(k) == z3.And(t0.has(k), k != c.old.name))),
                ("types-kept", z3.ForAll([k], z3.Implies(t1.has(k), t1.get(k) == t0.get(k)))),
                ("size", t1.n == t0.n - 1)] + own_fields_kept(c.old.self, c.new.self)


@register
class SGRenameElement(_SG):
    targets = (SG + "._rename_element",)
    params = {"current_name": TStr, "new_name": TStr}
    modifies = ("self",)
    raises = {"KeyError": lambda c: z3.Not(ntt(c.old.self).has(c.old.current_name))}

    def ensures(self, c):
        t0, t1 = ntt(c.old.self), ntt(c.new.self)
        a, b = c.old.current_name, c.old.new_name
        k = kq()
        return [("names", z3.ForAll([k], t1.has(k) == z3.Or(z3.And(t0.has(k), k != a), k == b))),
                ("type-moved", t1.get(b) == t0.get(a)),
                ("types-kept", z3.ForAll([k], z3.Implies(z3.And(t0.has(k), k != a, k != b), t1.get(k) == t0.get(k)))),
                ] + own_fields_kept(c.old.self, c.new.self)


@register
class SGClear(_SG):
    targets = (SG + "._clear",)
    modifies = ("self",)
    inline_ok = True  # called by clear() from __init__ on an object whose fields do not exist yet

    def ensures(self, c):
        return [("no-element", ntt(c.new.self).n == 0)] + own_fields_kept(c.old.self, c.new.self)


@register
class SGCopyInto(_SG):
    """The other grammar gets its own dictionary with the same elements."""

    targets = (SG + "._copy",)
    params = {"grammar": TObj(SG)}
    modifies = ("grammar",)

    def ensures(self, c):
        return [("elements", same_dict(ntt(c.new.grammar), ntt(c.old.self))),
                ("own-dictionary", z3.BoolVal(c.new.grammar._SimpleGrammar__names_to_types.ref != c.old.self._SimpleGrammar__names_to_types.ref)),
                ] + own_fields_kept(c.old.grammar, c.new.grammar) + own_fields_kept(c.old.self, c.new.self, types=True)


@register
class SGCheckMerge(_SG):
    targets = (SG + ".__check_merge",)
    params = {"merge": TBool}
    raises = {"ValueError": lambda c: c.old.merge}


@register
class SGCheckType(_SG):
    targets = (SG + ".__check_type",)
    params = {"name": TStr, "obj": TVal}
    raises = {"TypeError": lambda c: z3.Not(type_ok(c.old.obj))}


def updated_types(t0, t1, src, excluded=None):
    """t1 = t0 overwritten by the (generalised) types of ``src`` for the names that are not excluded."""
    k = kq("k!ut")
    taken = (lambda x: z3.And(src.has(x), z3.Not(member_fn(excluded)(x)))) if excluded is not None else (lambda x: src.has(x))
    return [("names", z3.ForAll([k], t1.has(k) == z3.Or(t0.has(k), taken(k)))),
            ("new-types", z3.ForAll([k], z3.Implies(taken(k), t1.get(k) == stored_type(src.get(k))))),
            ("other-types-kept", z3.ForAll([k], z3.Implies(z3.And(t0.has(k), z3.Not(taken(k))), t1.get(k) == t0.get(k))))]


def all_types_ok(src, excluded=None):
    k = kq("k!ato")
    taken = (lambda x: z3.And(src.has(x), z3.Not(member_fn(excluded)(x)))) if excluded is not None else (lambda x: src.has(x))
    return z3.ForAll([k], z3.Implies(taken(k), type_ok(src.get(k))))


@register
class SGUpdatePrivate(_SG):
    """The elements of a mapping / grammar are added or overwritten, except the excluded names."""

    targets = (SG + ".__update",)
    params = {"grammar": TEither(NTT, TObj(SG)), "excluded_names": NAMES}
    modifies = ("self",)
    raises = {"TypeError": lambda c: z3.Not(all_types_ok(elements(c.old.grammar), c.old.excluded_names))}
    loops = {0: LoopSpec(anchor="grammar.items()", modifies=("self",), inv=lambda c, k: _update_inv(c, k))}

    def requires(self, c):
        return type_facts() + [("not-itself", z3.BoolVal(c.arg("grammar") != c.arg("self")))]

    def ensures(self, c):
        return updated_types(ntt(c.old.self), ntt(c.new.self), elements(c.old.grammar), c.old.excluded_names) + own_fields_kept(c.old.self, c.new.self)


def _update_inv(c, k):
    t0, t = ntt(c.old.self), ntt(c.new.self)
    src, ex = elements(c.old.grammar), c.old.excluded_names
    x = kq("k!ui")
    pos = c.seq.pos
    done = lambda y: z3.And(src.has(y), pos[y] < k, z3.Not(member_fn(ex)(y)))  # noqa: E731
    return [("names", z3.ForAll([x], t.has(x) == z3.Or(t0.has(x), done(x)))),
            ("new-types", z3.ForAll([x], z3.Implies(done(x), t.get(x) == stored_type(src.get(x))))),
            ("other-types-kept", z3.ForAll([x], z3.Implies(z3.And(t0.has(x), z3.Not(done(x))), t.get(x) == t0.get(x)))),
            ("checked", z3.ForAll([x], z3.Implies(done(x), type_ok(src.get(x))))),
            ] + own_fields_kept(c.old.self, c.new.self)


@register
class SGUpdateFromTypes(_SG):
    targets = (SG + "._update_from_types",)
    params = {"names_to_types": NTT, "merge": TBool}
    modifies = ("self",)
    raises = {"ValueError": lambda c: c.old.merge,
              "TypeError": lambda c: z3.And(z3.Not(c.old.merge), z3.Not(all_types_ok(c.old.names_to_types)))}

    def requires(self, c):
        return type_facts()

    def ensures(self, c):
        return updated_types(ntt(c.old.self), ntt(c.new.self), c.old.names_to_types) + own_fields_kept(c.old.self, c.new.self)


@register
class SGUpdateFromNames(_SG):
    """Every given name becomes (or stays) an element, bound to the NumPy array type."""

    targets = (SG + "._update_from_names",)
    params = {"names": NAMELIST, "merge": TBool}
    modifies = ("self",)
    raises = {"ValueError": lambda c: c.old.merge}

    def requires(self, c):
        return type_facts()

    def ensures(self, c):
        t0, t1 = ntt(c.old.self), ntt(c.new.self)
        k = kq()
        L = c.old.names
        return [("names", z3.ForAll([k], t1.has(k) == z3.Or(t0.has(k), member_fn(L)(k)))),
                ("new-types", z3.ForAll([k], z3.Implies(member_fn(L)(k), t1.get(k) == TYPE_NDARRAY))),
                ("other-types-kept", z3.ForAll([k], z3.Implies(z3.And(t0.has(k), z3.Not(member_fn(L)(k))), t1.get(k) == t0.get(k)))),
                ] + own_fields_kept(c.old.self, c.new.self)


@register
class SGUpdate(_SG):
    """Elements of another grammar, except the excluded names (the parts are handled by BaseGrammar.update)."""

    targets = (SG + "._update",)
    params = {"grammar": TObj(SG), "excluded_names": NAMES, "merge": TBool}
    modifies = ("self",)
    raises = {"ValueError": lambda c: c.old.merge,
              "TypeError": lambda c: z3.And(z3.Not(c.old.merge), z3.Not(all_types_ok(ntt(c.old.grammar), c.old.excluded_names)))}

    def requires(self, c):
        return type_facts()

    def ensures(self, c):
        return updated_types(ntt(c.old.self), ntt(c.new.self), ntt(c.old.grammar), c.old.excluded_names) + own_fields_kept(c.old.self, c.new.self) + \
            own_fields_kept(c.old.grammar, c.new.grammar, types=True)


def types_accept(types, data):
    k = kq("k!ta")
    return z3.ForAll([k], z3.Implies(z3.And(types.member[k], data.member[k], types.vals[k] != val_none), is_instance(data.vals[k], types.vals[k])))


@register
class SGValidate(_SG):
    """True exactly when every present element that has a type holds an instance of that type; read-only."""

    targets = (SG + "._validate",)
    params = {"data": DATA, "error_message": TMsg()}
    returns = TBool
    loops = {0: LoopSpec(anchor="self.__names_to_types.items()", inv=lambda c, k: _validate_inv(c, k))}

    def ensures(self, c):
        return [("value", c.result == types_accept(ntt(c.old.self), c.old.data))]


def _validate_inv(c, k):
    t, d = ntt(c.old.self), c.old.data
    i = z3.Int("i!vi")
    key = lambda j: c.seq.keys[j]  # noqa: E731
    ok = lambda j: z3.Implies(z3.And(d.member[key(j)], t.vals[key(j)] != val_none), is_instance(d.vals[key(j)], t.vals[key(j)]))  # noqa: E731
    return [("verdict-so-far", c.locals["data_is_valid"] == z3.ForAll([i], z3.Implies(z3.And(0 <= i, i < k), ok(i))))]


@register
class SGRestrictTo(_SG):
    """Only the given names remain, with their types."""

    targets = (SG + "._restrict_to",)
    params = {"names": NAMELIST}
    modifies = ("self",)
    loops = {0: LoopSpec(anchor="self.__names_to_types.keys() - names", modifies=("self",), inv=lambda c, k: _restrict_inv(c, k))}

    def ensures(self, c):
        t0, t1 = ntt(c.old.self), ntt(c.new.self)
        k = kq()
        return [("names", z3.ForAll([k], t1.has(k) == z3.And(t0.has(k), member_fn(c.old.names)(k)))),
                ("types-kept", z3.ForAll([k], z3.Implies(t1.has(k), t1.get(k) == t0.get(k)))),
                ] + own_fields_kept(c.old.self, c.new.self)


def _restrict_inv(c, k):
    t0, t = ntt(c.old.self), ntt(c.new.self)
    x = kq("k!ri")
    pos = c.seq.pos
    removed = lambda y: z3.And(t0.has(y), z3.Not(member_fn(c.old.names)(y)), pos[y] < k)  # noqa: E731
    return [("names", z3.ForAll([x], t.has(x) == z3.And(t0.has(x), z3.Not(removed(x))))),
            ("types-kept", z3.ForAll([x], z3.Implies(t.has(x), t.get(x) == t0.get(x)))),
            ] + own_fields_kept(c.old.self, c.new.self)


# ---------------------------------------------------------------------------- BaseGrammar template methods (SimpleGrammar instantiation)
PARTS = ("self", "self._defaults", "self._required_names")


class _BG(Contract):
    prop = ("C15",)
    self_class = SG
    modifies = PARTS

    def requires(self, c):
        return wfg(c.old.self) + wfg_ns(c.old.self) + type_facts()


def ns_last(cls):
    """Adds the namespace clause of the invariant as the *last* postcondition of a mutator."""
    orig = cls.ensures

    def ensures(self, c):
        return orig(self, c) + wfg_ns(c.new.self)

    cls.ensures = ensures
    return cls


def removed_from_dict(d1, d0, gone):
    """d1 = d0 without the keys satisfying ``gone``, values kept."""
    k = kq("k!rd")
    return z3.And(z3.ForAll([k], d1.has(k) == z3.And(d0.has(k), z3.Not(gone(k)))), z3.ForAll([k], z3.Implies(d1.has(k), d1.get(k) == d0.get(k))))


def removed_from_set(s1, s0, gone):
    k = kq("k!rs")
    return z3.ForAll([k], s1.member[k] == z3.And(s0.member[k], z3.Not(gone(k))))


def added_to_set(s1, s0, added):
    k = kq("k!as")
    return z3.ForAll([k], s1.member[k] == z3.Or(s0.member[k], added(k)))


@register
@ns_last
class BGDelitem(_BG):
    """The element disappears from the elements, the required names and the defaults; nothing else changes."""

    targets = (BG + ".__delitem__",)
    params = {"name": TStr}
    raises = {"KeyError": lambda c: z3.Not(ntt(c.old.self).has(c.old.name))}

    def finding_regions(self, c):
        return {"name-has-a-namespace": c.old.self.from_namespaced.has(c.old.name)}

    def ensures(self, c):
        g0, g1 = c.old.self, c.new.self
        gone = lambda k: k == c.old.name  # noqa: E731
        return wfg(g1) + [("element-removed", removed_from_dict(ntt(g1), ntt(g0), gone)),
                          ("no-longer-required", removed_from_set(req(g1), req(g0), gone)),
                          ("default-removed", removed_from_dict(dfl(g1), dfl(g0), gone)),
                          ("size", ntt(g1).n == ntt(g0).n - 1)] + kept(g0, g1, "types", "required", "defaults")


@register
@ns_last
class BGClear(_BG):
    targets = (BG + ".clear",)
    inline_ok = True  # called by __init__ on an object whose parts do not exist yet

    def requires(self, c):
        return [("name-is-not-empty", _nonempty(c.old.self.name))]

    def ensures(self, c):
        g0, g1 = c.old.self, c.new.self
        return wfg(g1) + [("no-element", ntt(g1).n == 0), ("no-required-name", req(g1).n == 0), ("no-default", dfl(g1).n == 0),
                          ("no-namespace", z3.And(g1.to_namespaced.n == 0, g1.from_namespaced.n == 0))] + kept(g0, g1, "types", "required", "defaults", "namespaces")


@register
@ns_last
class BGUpdateFromTypes(_BG):
    """The given names become elements with the given types, and required; the other elements, the other required
    names and the defaults are unchanged."""

    targets = (BG + ".update_from_types",)
    params = {"names_to_types": NTT, "merge": TBool}
    raises = {"ValueError": lambda c: z3.And(c.old.names_to_types.n != 0, c.old.merge),
              "TypeError": lambda c: z3.And(c.old.names_to_types.n != 0, z3.Not(c.old.merge), z3.Not(all_types_ok(c.old.names_to_types)))}

    def ensures(self, c):
        g0, g1 = c.old.self, c.new.self
        src = c.old.names_to_types
        return wfg(g1) + updated_types(ntt(g0), ntt(g1), src) + [("required", added_to_set(req(g1), req(g0), lambda k: src.has(k)))] + kept(g0, g1, "types", "required")


@register
@ns_last
class BGUpdateFromNames(_BG):
    targets = (BG + ".update_from_names",)
    params = {"names": NAMELIST, "merge": TBool}
    raises = {"ValueError": lambda c: z3.And(c.old.names.n != 0, c.old.merge)}

    def ensures(self, c):
        g0, g1 = c.old.self, c.new.self
        t0, t1 = ntt(g0), ntt(g1)
        L = c.old.names
        k = kq()
        return wfg(g1) + [("names", z3.ForAll([k], t1.has(k) == z3.Or(t0.has(k), member_fn(L)(k)))),
                          ("new-types", z3.ForAll([k], z3.Implies(member_fn(L)(k), t1.get(k) == TYPE_NDARRAY))),
                          ("other-types-kept", z3.ForAll([k], z3.Implies(z3.And(t0.has(k), z3.Not(member_fn(L)(k))), t1.get(k) == t0.get(k)))),
                          ("required", added_to_set(req(g1), req(g0), lambda x: member_fn(L)(x)))] + kept(g0, g1, "types", "required")


@register
@ns_last
class BGUpdateFromData(_BG):
    """Every name of the data becomes a required element whose type is the type of its value."""

    targets = (BG + ".update_from_data",)
    params = {"data": DATA, "merge": TBool}
    raises = {"ValueError": lambda c: z3.And(c.old.data.n != 0, c.old.merge)}

    def ensures(self, c):
        g0, g1 = c.old.self, c.new.self
        t0, t1 = ntt(g0), ntt(g1)
        d = c.old.data
        k = kq()
        return wfg(g1) + [("names", z3.ForAll([k], t1.has(k) == z3.Or(t0.has(k), d.has(k)))),
                          ("new-types", z3.ForAll([k], z3.Implies(d.has(k), t1.get(k) == stored_type(type_of(d.get(k)))))),
                          ("other-types-kept", z3.ForAll([k], z3.Implies(z3.And(t0.has(k), z3.Not(d.has(k))), t1.get(k) == t0.get(k)))),
                          ("required", added_to_set(req(g1), req(g0), lambda x: d.has(x))),
                          ("data-is-then-valid", z3.Implies(z3.ForAll([k], z3.Implies(d.has(k), type_of(d.get(k)) != TYPE_DICT)), types_accept(t1, d)))] + kept(g0, g1, "types", "required")


@register
class BGValidate(_BG):
    """Validation <=> definition: InvalidDataError exactly when a required name is missing or a present element
    with a type does not hold an instance of it; the grammar is not changed."""

    targets = (BG + ".validate",)
    params = {"data": DATA, "raise_exception": TBool}
    modifies = ()
    raises = {"InvalidDataError": lambda c: z3.And(c.old.raise_exception, z3.Not(accepts(ntt(c.old.self), req(c.old.self), c.old.data)))}


@register
class BGHasNames(_BG):
    targets = (BG + ".has_names",)
    params = {"names": NAMELIST}
    returns = TBool
    modifies = ()

    def ensures(self, c):
        return [("value", c.result == _all_elements(c.old.names, ntt(c.old.self)))]


@register
@ns_last
class BGRestrictTo(_BG):
    """Only the given names remain: as elements, as required names, as defaults."""

    targets = (BG + ".restrict_to",)
    params = {"names": NAMELIST}
    raises = {"KeyError": lambda c: z3.Not(_all_elements(c.old.names, ntt(c.old.self)))}
    loops = {0: LoopSpec(anchor="self._defaults.keys() - names", modifies=("self._defaults",), inv=lambda c, k: _bg_restrict_inv(c, k))}

    def finding_regions(self, c):
        k = kq("k!reg")
        return {"a-removed-name-has-a-namespace": z3.Exists([k], z3.And(c.old.self.from_namespaced.has(k), z3.Not(member_fn(c.old.names)(k))))}

    def ensures(self, c):
        g0, g1 = c.old.self, c.new.self
        out = lambda k: z3.Not(member_fn(c.old.names)(k))  # noqa: E731
        return wfg(g1) + [("elements", removed_from_dict(ntt(g1), ntt(g0), out)),
                          ("required", removed_from_set(req(g1), req(g0), out)),
                          ("defaults", removed_from_dict(dfl(g1), dfl(g0), out))] + kept(g0, g1, "types", "required", "defaults")


def _bg_restrict_inv(c, k):
    g0, g = c.old.self, c.new.self
    pos = c.seq.pos
    gone = lambda y: z3.And(z3.Not(member_fn(c.old.names)(y)), pos[y] < k)  # noqa: E731
    return [("defaults", removed_from_dict(dfl(g), dfl(g0), gone)),
            ("still-bound", z3.BoolVal(g._defaults._Defaults__grammar.ref == g.ref))] + kept(g0, g, "defaults")


@register
@ns_last
class BGRenameElement(_BG):
    """The element, its requiredness and its default value move to the new name; every other element is untouched."""

    targets = (BG + ".rename_element",)
    params = {"current_name": TStr, "new_name": TStr}
    raises = {"KeyError": lambda c: z3.Not(ntt(c.old.self).has(c.old.current_name))}

    def finding_regions(self, c):
        d = dfl(c.old.self)
        return {"default-value-is-None": z3.And(d.has(c.old.current_name), d.get(c.old.current_name) == val_none),
                "name-has-a-namespace": z3.And(c.old.self.from_namespaced.has(c.old.current_name), c.old.current_name != c.old.new_name)}

    def ensures(self, c):
        g0, g1 = c.old.self, c.new.self
        a, b = c.old.current_name, c.old.new_name
        t0, t1, r0, r1, d0, d1 = ntt(g0), ntt(g1), req(g0), req(g1), dfl(g0), dfl(g1)
        k = kq()
        free = z3.Or(a == b, z3.Not(t0.has(b)))  # renaming onto another existing element overwrites it: only WFG and the frame are specified
        other = lambda x: z3.And(x != a, x != b)  # noqa: E731
        return wfg(g1) + [
            ("elements", z3.ForAll([k], t1.has(k) == z3.Or(z3.And(t0.has(k), k != a), k == b))),
            ("type-moved", t1.get(b) == t0.get(a)),
            ("other-types-kept", z3.ForAll([k], z3.Implies(z3.And(t0.has(k), other(k)), t1.get(k) == t0.get(k)))),
            ("other-required-kept", z3.ForAll([k], z3.Implies(other(k), r1.member[k] == r0.member[k]))),
            ("other-defaults-kept", z3.ForAll([k], z3.Implies(other(k), z3.And(d1.has(k) == d0.has(k), z3.Implies(d0.has(k), d1.get(k) == d0.get(k)))))),
            ("requiredness-moved", z3.Implies(free, z3.And(r1.member[b] == r0.member[a], z3.Implies(a != b, z3.Not(r1.member[a]))))),
            ("default-moved", z3.Implies(free, z3.And(d1.has(b) == d0.has(a), z3.Implies(d0.has(a), d1.get(b) == d0.get(a)), z3.Implies(a != b, z3.Not(d1.has(a)))))),
        ] + kept(g0, g1, "types", "required", "defaults")


@register
@ns_last
class BGDefaultsSetter(_BG):
    """The defaults are replaced by the given ones, which must all be bound to element names."""

    targets = (BG + ".defaults",)
    setter = True
    params = {"data": TEither(DATA, TObj(DF))}  # a plain mapping, or the Defaults of another grammar (to_simple_grammar)
    raises = {"KeyError": lambda c: z3.Not(subset_of_keys(data_of(c.old.data), ntt(c.old.self)))}

    def ensures(self, c):
        g0, g1 = c.old.self, c.new.self
        return wfg(g1) + [("defaults", same_dict(dfl(g1), data_of(c.old.data))),
                          ("own-dictionary", z3.BoolVal(g1._defaults._Defaults__data.ref != data_of(c.old.data).ref)),
                          ("argument-not-modified", same_dict(data_of(c.new.data), data_of(c.old.data)))] + kept(g0, g1, "defaults")


@register
class UpdateNamespaces(Contract):
    """Namespace maps hold a name or a list of names per key; their content is opaque here."""

    targets = ("gemseo.core.namespaces.update_namespaces",)
    prop = ("C15",)
    params = {"namespaces": NSMAP, "other_namespaces": NSMAP}
    modifies = ("namespaces",)
    trusted = True
    description = "assumed: the keys of the other map are added, entries under other keys are unchanged (merged values are opaque)"

    def ensures(self, c):
        n0, n1, o = c.old.namespaces, c.new.namespaces, c.old.other_namespaces
        k = kq()
        return [("keys", z3.ForAll([k], n1.has(k) == z3.Or(n0.has(k), o.has(k)))),
                ("others-kept", z3.ForAll([k], z3.Implies(z3.And(n0.has(k), z3.Not(o.has(k))), n1.get(k) == n0.get(k))))]


@register
class CreateDataConverter(Contract):
    targets = (BG + ".__create_data_converter",)
    prop = ("C15",)
    self_class = SG
    params = {"cls": TVal}
    modifies = ("self",)
    trusted = True
    description = "assumed: only sets _data_converter (DataConverterFactory is plugin discovery, out of reach)"

    def ensures(self, c):
        g0, g1 = c.old.self, c.new.self
        return own_fields_kept(g0, g1, types=True, converter=False)


def namespaces_updated(g0, g1, other):
    k = kq("k!ns")
    out = []
    for f in ("to_namespaced", "from_namespaced"):
        n0, n1, o = getattr(g0, f), getattr(g1, f), getattr(other, f)
        out.append((f"namespaces:{f}", z3.And(z3.ForAll([k], n1.has(k) == z3.Or(n0.has(k), o.has(k))),
                                              z3.ForAll([k], z3.Implies(z3.And(n0.has(k), z3.Not(o.has(k))), n1.get(k) == n0.get(k))))))
    return out


@register
@ns_last
class BGUpdate(_BG):
    """Elements, defaults and requiredness of the other grammar are taken over, except for the excluded names;
    the other grammar is not changed."""

    targets = (BG + ".update",)
    params = {"grammar": TObj(SG), "excluded_names": NAMES, "merge": TBool}
    raises = {"ValueError": lambda c: z3.And(ntt(c.old.grammar).n != 0, c.old.merge),
              "TypeError": lambda c: z3.And(ntt(c.old.grammar).n != 0, z3.Not(c.old.merge), z3.Not(all_types_ok(ntt(c.old.grammar), c.old.excluded_names)))}

    def finding_regions(self, c):
        k = kq("k!reg")
        return {"an-excluded-name-has-a-namespace": z3.Exists([k], z3.And(c.old.grammar.from_namespaced.has(k), c.old.excluded_names.member[k]))}

    def requires(self, c):
        return wfg(c.old.self) + wfg_ns(c.old.self) + [(f"other:{l}", f) for l, f in wfg(c.old.grammar) + wfg_ns(c.old.grammar)] + type_facts()

    def ensures(self, c):
        g0, g1, o = c.old.self, c.new.self, c.old.grammar
        ex = c.old.excluded_names
        k = kq()
        taken = lambda x: z3.Not(ex.member[x])  # noqa: E731
        d0, d1, do = dfl(g0), dfl(g1), dfl(o)
        nonempty = ntt(o).n != 0
        out = wfg(g1) + [(f"other-unchanged:{l}", f) for l, f in kept(o, c.new.grammar)]
        changed = updated_types(ntt(g0), ntt(g1), ntt(o), ex) + [
            ("required", added_to_set(req(g1), req(g0), lambda x: z3.And(ntt(o).has(x), req(o).member[x], taken(x)))),
            ("defaults-keys", z3.ForAll([k], d1.has(k) == z3.Or(d0.has(k), z3.And(do.has(k), taken(k))))),
            ("defaults-values", z3.ForAll([k], z3.Implies(d1.has(k), d1.get(k) == z3.If(z3.And(do.has(k), taken(k)), do.get(k), d0.get(k))))),
        ] + namespaces_updated(g0, g1, o)
        out += [(l, z3.Implies(nonempty, f)) for l, f in changed]
        out += [(f"empty:{l}", z3.Implies(z3.Not(nonempty), f)) for l, f in kept(g0, g1)]
        return out + kept(g0, g1, "types", "required", "defaults", "namespaces")


@register
@ns_last
class BGAddNamespace(_BG):
    """The element is renamed to namespace:name and the two namespace maps record the pair."""

    targets = (BG + ".add_namespace",)
    params = {"name": TStr, "namespace": TStr}
    raises = {"KeyError": lambda c: z3.Not(ntt(c.old.self).has(c.old.name)),
              "ValueError": lambda c: z3.And(ntt(c.old.self).has(c.old.name), _has_separator(c.old.name))}

    def ensures(self, c):
        from pyvc.models import str_concat
        from pyvc.values import val_of_str

        g0, g1 = c.old.self, c.new.self
        a = c.old.name
        b = str_concat(str_concat(c.old.namespace, TStr.embed(None, ":")), a)
        t0, t1 = ntt(g0), ntt(g1)
        k = kq()
        tn0, tn1, fn0, fn1 = g0.to_namespaced, g1.to_namespaced, g0.from_namespaced, g1.from_namespaced
        return wfg(g1) + [
            ("elements", z3.ForAll([k], t1.has(k) == z3.Or(z3.And(t0.has(k), k != a), k == b))),
            ("type-moved", t1.get(b) == t0.get(a)),
            ("to-namespaced", z3.And(tn1.has(a), tn1.get(a) == val_of_str(b), z3.ForAll([k], z3.Implies(k != a, z3.And(tn1.has(k) == tn0.has(k), z3.Implies(tn0.has(k), tn1.get(k) == tn0.get(k))))))),
            ("from-namespaced", z3.And(fn1.has(b), fn1.get(b) == val_of_str(a), z3.ForAll([k], z3.Implies(k != b, z3.And(fn1.has(k) == fn0.has(k), z3.Implies(fn0.has(k), fn1.get(k) == fn0.get(k))))))),
            ("namespaced-name-is-an-element", t1.has(b)),
        ] + kept(g0, g1, "types", "required", "defaults", "namespaces")


def _has_separator(name):
    from pyvc.plug_grammars import str_contains

    return str_contains(name, TStr.embed(None, ":"))


class TNone(T):
    name = "None"

    def fresh(self, st, hint):
        return None


@register
@ns_last
class BGInit(_BG):
    """A new grammar is empty and well-formed; an empty name is refused."""

    targets = (BG + ".__init__",)
    params = {"name": TStr}
    inline_ok = True
    raises = {"ValueError": lambda c: z3.Not(_nonempty(c.old.name))}

    def requires(self, c):
        return []

    def ensures(self, c):
        g1 = c.new.self
        return wfg(g1) + [("name", g1.name == c.old.name), ("no-element", ntt(g1).n == 0), ("no-required-name", req(g1).n == 0), ("no-default", dfl(g1).n == 0),
                          ("no-namespace", z3.And(g1.to_namespaced.n == 0, g1.from_namespaced.n == 0))]


def _nonempty(s):
    from pyvc.models import str_nonempty_f

    return str_nonempty_f(s)


@register
@ns_last
class SGInit(_SG):
    """The elements are the given ones; the required names are the given ones if any (they must be elements), else all elements."""

    targets = (SG + ".__init__",)
    params = {"name": TStr, "names_to_types": TEither(NTT, TNone()), "required_names": TEither(NAMELIST, TNone())}
    modifies = PARTS
    inline_ok = True

    @property
    def raises(self):
        def elems(c):
            return c.old.names_to_types if c.arg("names_to_types") is not None else None

        def bad_types(c):
            e = elems(c)
            return z3.BoolVal(False) if e is None else z3.And(e.n != 0, z3.Not(all_types_ok(e)))

        def bad_required(c):
            if c.arg("required_names") is None:
                return z3.BoolVal(False)
            e = elems(c)
            k = kq("k!br")
            known = (lambda x: e.has(x)) if e is not None else (lambda x: z3.BoolVal(False))
            return z3.Not(z3.ForAll([k], z3.Implies(member_fn(c.old.required_names)(k), known(k))))

        return {"ValueError": lambda c: z3.Not(_nonempty(c.old.name)),
                "TypeError": lambda c: z3.And(_nonempty(c.old.name), bad_types(c)),
                "KeyError": lambda c: z3.And(_nonempty(c.old.name), z3.Not(bad_types(c)), bad_required(c))}

    def requires(self, c):
        return type_facts()

    def ensures(self, c):
        g1 = c.new.self
        t1, r1 = ntt(g1), req(g1)
        k = kq()
        out = wfg(g1) + [("name", g1.name == c.old.name), ("no-default", dfl(g1).n == 0),
                         ("no-namespace", z3.And(g1.to_namespaced.n == 0, g1.from_namespaced.n == 0))]
        if c.arg("names_to_types") is None:
            out.append(("elements", t1.n == 0))
        else:
            e = c.old.names_to_types
            out += [("elements", z3.ForAll([k], t1.has(k) == e.has(k))), ("types", z3.ForAll([k], z3.Implies(e.has(k), t1.get(k) == stored_type(e.get(k)))))]
        if c.arg("required_names") is None:
            out.append(("all-required", z3.ForAll([k], r1.member[k] == t1.has(k))))
        else:
            out.append(("required", z3.ForAll([k], r1.member[k] == member_fn(c.old.required_names)(k))))
        return out


@register
class BGCopy(_BG):
    """The copy has the same elements, required names, defaults and namespaces, is itself well-formed and shares no mutable part
    with the original: editing one never changes the other."""

    targets = (BG + ".__copy__",)
    returns = TObj(SG)
    modifies = ()

    def finding_regions(self, c):
        return {"always": z3.BoolVal(True)}

    def ensures(self, c):
        g0, r = c.old.self, c.result
        ind = lambda a, b: z3.BoolVal(a.ref != b.ref)  # noqa: E731
        rn = "wfg:required-names-bound-to-the-grammar"
        return [
            ("same-elements", same_dict(ntt(r), ntt(g0))),
            ("same-required-names", same_set(req(r), req(g0))),
            ("same-defaults", same_dict(dfl(r), dfl(g0))),
            ("same-namespaces", z3.And(same_dict(r.to_namespaced, g0.to_namespaced), same_dict(r.from_namespaced, g0.from_namespaced))),
            ("same-name", r.name == g0.name),
            ("independent:elements", ind(r._SimpleGrammar__names_to_types, g0._SimpleGrammar__names_to_types)),
            ("independent:defaults", z3.BoolVal(r._defaults.ref != g0._defaults.ref and r._defaults._Defaults__data.ref != g0._defaults._Defaults__data.ref)),
            ("independent:namespaces", z3.BoolVal(r.to_namespaced.ref != g0.to_namespaced.ref and r.from_namespaced.ref != g0.from_namespaced.ref)),
        ] + [(f"original:{l}", f) for l, f in kept(g0, c.new.self)] + [(f"copy:{l}", f) for l, f in wfg(r) if l != rn] + [
            # (last: these two clauses fail on the pinned tree - copy.copy(RequiredNames) is shallow - and a failed clause is assumed afterwards)
            ("independent:required-names", z3.BoolVal(r._required_names.ref != g0._required_names.ref and
                                                      r._required_names._RequiredNames__names.ref != g0._required_names._RequiredNames__names.ref)),
            (f"copy:{rn}", dict(wfg(r))[rn]),
        ]
