"""C11 - a design space written to an HDF node reloads identically (DesignSpace.to_hdf / from_hdf).

Abstract file (pyvc/plug_hdf.py, part "design-space group"; ghosts h5ds_*): the group "design_space" holds the dataset ``names``
(variable names, in order) and one sub-group per variable with the datasets size, l_b, u_b, var_type and - optionally - value.

WRITER (``ToHdf``): names = the variable names in variable order; for every variable its group holds its size, bounds, type and -
EXACTLY WHEN THAT VARIABLE has a current value - its value.   READER (``FromHdf``): the design space returned is built by calling
add_variable (contract variant ``c11`` recording its arguments) once per listed name, in order, with the stored size, type, bounds
and value (None iff there is no value dataset).   ``DesignSpaceHdfRoundTrip``: lemma over the two contracts.
"""
from __future__ import annotations

import z3

from pyvc import contract as C
from pyvc import plug_hdf as H
from pyvc.contract import Contract, LoopSpec, register, schema
from pyvc.models import str_nonempty_f
from pyvc.plug_dsfiles import ARGS, OPT_ND
from pyvc.plug_hdf import DS_FIELDS, GROUP
from pyvc.values import StrS, TBool, TInt, TNd, TObj, TOpt, TStr, TVal, forall_pat as FA

from contracts.c02_design_space import CV, DS, V, VAR, size, wf
from contracts.c11_design_space_files import added

schema(GROUP + "#dsg", dict(DS_FIELDS))
schema(GROUP + "#dsnode", {})
LIST_N, LIST_EL = H.DS_NAMES.dt.accessor(0, 0), H.DS_NAMES.dt.accessor(0, 1)


class DsFile:
    """The design-space group as ghosts (between two ``with`` blocks) or as the open group object."""

    def __init__(self, c, which="old", obj=None):
        if obj is not None:
            g = lambda f: getattr(obj, f)  # noqa: E731
            self.has_names = obj.has_names if not isinstance(obj.has_names, bool) else z3.BoolVal(obj.has_names)
            self.n, self.el = obj.names.n, obj.names.elems
            self.grp = obj.vgrp.member
            self.d = {f: (getattr(obj, f).member, getattr(obj, f).vals) for f in ("vsize", "vlb", "vub", "vtype", "vval")}
            self.has = None
        else:
            gh = c.old_ghost if which == "old" else c.new_ghost
            t = lambda f: gh("h5ds_" + f, DS_FIELDS[f].sort())  # noqa: E731
            self.has = gh("h5ds_has", z3.BoolSort())
            self.has_names = t("has_names")
            self.n, self.el = LIST_N(t("names")), LIST_EL(t("names"))
            self.grp = DS_FIELDS["vgrp"].dt.accessor(0, 0)(t("vgrp"))
            self.d = {f: (DS_FIELDS[f].acc(0)(t(f)), DS_FIELDS[f].acc(1)(t(f))) for f in ("vsize", "vlb", "vub", "vtype", "vval")}

    def m(self, f, s):
        return self.d[f][0][s]

    def v(self, f, s):
        return self.d[f][1][s]

    def empty(self):
        s = z3.Const("s!de", StrS)
        return z3.And(z3.Not(self.has_names), z3.ForAll([s], z3.And(z3.Not(self.grp[s]), *[z3.Not(self.m(f, s)) for f in self.d])))


def var_written(F: DsFile, ds, s):
    """The group of variable s holds its size, bounds, type and - exactly when s has a current value - its value."""
    v, cv = V(ds), CV(ds)
    rec = v.vals[s]
    has_value = z3.And(cv.has(s), z3.Not(CUR_NONE(cv.vals[s])))
    return z3.And(F.grp[s], F.m("vsize", s), F.v("vsize", s) == size(rec), F.m("vlb", s), F.v("vlb", s) == VAR.accessor("lower_bound")(rec),
                  F.m("vub", s), F.v("vub", s) == VAR.accessor("upper_bound")(rec),
                  F.m("vtype", s), F.v("vtype", s) == H.type_rep(VAR.accessor("type")(rec), size(rec)),
                  F.m("vval", s) == has_value, z3.Implies(has_value, F.v("vval", s) == OPT_ND.dt.get(cv.vals[s])))


def CUR_NONE(t):
    return OPT_ND.dt.is_none(t)


def _to_hdf_inv(c, k):
    ds = c.old.self
    v = V(ds)
    F = DsFile(c, obj=c.locals["design_vars_grp"])
    i, s = z3.Int("i!th"), z3.Const("s!th", StrS)
    return [
        ("names", z3.And(F.has_names, F.n == v.n, FA([i], z3.Implies(z3.And(0 <= i, i < v.n), F.el[i] == v.keys[i]), F.el[i]))),
        ("groups", FA([s], F.grp[s] == z3.And(v.has(s), v.pos[s] < k), F.grp[s])),
        ("written", FA([s], z3.Implies(z3.And(v.has(s), v.pos[s] < k), var_written(F, ds, s)), v.pos[s])),
    ] + [(f"nothing-else:{f}", FA([s], z3.Implies(F.m(f, s), z3.And(v.has(s), v.pos[s] < k)), F.m(f, s))) for f in F.d]


@register
class ToHdf(Contract):
    """WRITER.  names = the variable names in variable order; one group per variable with its size, bounds, type and - EXACTLY WHEN
    THAT VARIABLE has a current value - its value; nothing else in the group.  ValueError iff the node already holds a design space
    (append mode; the call sites only append when the group is absent)."""

    targets = (DS + ".to_hdf",)
    variant = "hdf"  # (a variant: the call site inside HDFDatabase.to_file keeps its assumed summary 'only writes the design_space group')
    prop = ("C11",)
    c11_hdf = True
    params = {"file_path": TStr, "append": TBool, "hdf_node_path": TStr}
    modifies = tuple("ghost:h5ds_" + f for f in DS_FIELDS) + ("ghost:h5ds_has",)
    raises = {"ValueError": lambda c: z3.And(c.old.append, DsFile(c).has_names)}
    loops = {0: LoopSpec(anchor="self._variables.items()", inv=_to_hdf_inv, modifies=("design_vars_grp",), local_types={"name": TStr, "variable": VAR})}

    def requires(self, c):
        F0 = DsFile(c)
        # append: a node without a names dataset holds no design-space content (call sites: `DESIGN_SPACE_GROUP not in h5file`)
        return wf(c.old.self) + [("append:group-without-names-is-empty", z3.Implies(z3.And(c.old.append, z3.Not(F0.has_names)), F0.empty()))]

    def ensures(self, c):
        ds = c.old.self
        v = V(ds)
        F = DsFile(c, "new")
        i, s = z3.Int("i!te"), z3.Const("s!te", StrS)
        return [
            ("group-exists", F.has),
            ("names-in-variable-order", z3.And(F.has_names, F.n == v.n, z3.ForAll([i], z3.Implies(z3.And(0 <= i, i < v.n), F.el[i] == v.keys[i])))),
            ("one-group-per-variable", z3.ForAll([s], F.grp[s] == v.has(s))),
            ("every-variable-written(value-iff-it-has-one)", z3.ForAll([s], z3.Implies(v.has(s), var_written(F, ds, s)))),
        ] + [(f"nothing-else:{f}", z3.ForAll([s], z3.Implies(F.m(f, s), v.has(s)))) for f in F.d]


# ---------------------------------------------------------------------------- from_hdf
def args_of(F: DsFile, s):
    """The arguments add_variable must get for the variable s of the file."""
    return ARGS.mk(F.v("vsize", s), H.type_first(F.v("vtype", s)), F.v("vlb", s), F.v("vub", s), z3.If(F.m("vval", s), OPT_ND.dt.some(F.v("vval", s)), OPT_ND.dt.none))


def ds_file_wf(F: DsFile):
    """A design-space group written by to_hdf: the names are pairwise distinct and every one has its group with size, bounds and type."""
    i, j = z3.Int("i!dw"), z3.Int("j!dw")
    rng = z3.And(0 <= i, i < F.n)
    s = F.el[i]
    return [("file:group-and-names-exist", z3.And(F.has, F.has_names, F.n >= 0)),
            ("file:names-distinct", z3.ForAll([i, j], z3.Implies(z3.And(0 <= i, i < j, j < F.n), F.el[i] != F.el[j]))),
            ("file:every-name-has-its-group", FA([i], z3.Implies(rng, z3.And(F.grp[s], F.m("vsize", s), F.m("vlb", s), F.m("vub", s), F.m("vtype", s))), F.el[i])),
            ("file:sizes-positive", FA([i], z3.Implies(rng, F.v("vsize", s) >= 1), F.el[i])),
            ("file:names-non-empty", FA([i], z3.Implies(rng, str_nonempty_f(s)), F.el[i]))]


def _restored(c, R, k):
    """The first k names of the file are the variables of R, in order, each created by add_variable with the stored arguments."""
    F = DsFile(c)
    A = added(c)
    v, cv = V(R), CV(R)
    i = z3.Int("i!rs")
    rng = z3.And(0 <= i, i < k)
    s = F.el[i]
    return [
        ("variables:count", v.n == k),
        ("variables:names-in-file-order", FA([i], z3.Implies(rng, z3.And(v.keys[i] == s, v.has(s))), F.el[i])),
        ("variables:created-with-the-stored-arguments", FA([i], z3.Implies(rng, A[s] == args_of(F, s)), F.el[i])),
        ("variables:size-and-type", FA([i], z3.Implies(rng, z3.And(size(v.vals[s]) == F.v("vsize", s), VAR.accessor("type")(v.vals[s]) == H.type_first(F.v("vtype", s)))), F.el[i])),
        ("variables:current-value-iff-stored", FA([i], z3.Implies(rng, cv.has(s) == F.m("vval", s)), F.el[i])),
    ]


def _from_hdf_inv(c, k):
    R = c.locals["design_space"]
    return wf(R) + _restored(c, R, k)


@register
class FromHdf(Contract):
    """READER.  The design space returned has exactly the listed names as variables, in file order, each one created by
    ``add_variable(name, size, type, l_b, u_b, value)`` with the stored size, type (element 0 of var_type), bounds and value - None
    exactly when the variable's group has no value dataset - so that a variable has a current value iff one was stored for IT.
    (ValueError: raised by add_variable / check on invalid stored data, not characterised.)"""

    targets = (DS + ".from_hdf",)
    prop = ("C11",)
    c11_hdf = True
    c11_files = True  # (DesignSpace() constructor model and literal -> symbolic string coercion of pyvc/plug_dsfiles.py)
    params = {"file_path": TStr, "hdf_node_path": TStr}
    returns = TObj(DS)
    modifies = ("ghost:c11_added",)
    raises = {"ValueError": None}
    raises_exact = False
    callee_variants = {DS + ".add_variable": "c11"}
    loops = {0: LoopSpec(anchor="variable_names", inv=_from_hdf_inv, modifies=("design_space", "ghost:c11_added"), local_types={"name": TStr})}

    def requires(self, c):
        return ds_file_wf(DsFile(c))

    def ensures(self, c):
        R = c.result
        return wf(R) + _restored(c, R, DsFile(c).n)


# ---------------------------------------------------------------------------- round trip
from contracts.c02_design_space import CUR, VARS  # noqa: E402


class _FreeDict:
    """An (ordered) dict view made of free constants with the facts of the dict model."""

    def __init__(self, name, T):
        d = z3.Const(name, T.sort())
        self.member, self.vals, self.n, self.keys, self.pos = (T.acc(t)(d) for t in range(5))
        self.K = T.k.sort()

    def has(self, k):
        return self.member[k]

    def facts(self):
        p, i = z3.Const("p!fd", self.K), z3.Int("i!fd")
        return [self.n >= 0,
                z3.ForAll([p], z3.Implies(self.member[p], z3.And(0 <= self.pos[p], self.pos[p] < self.n, self.keys[self.pos[p]] == p)), patterns=[self.pos[p]]),
                z3.ForAll([i], z3.Implies(z3.And(0 <= i, i < self.n), z3.And(self.member[self.keys[i]], self.pos[self.keys[i]] == i)), patterns=[self.keys[i]])]


class _FreeDs:
    def __init__(self, tag):
        self._variables = _FreeDict("RT_vars" + tag, VARS)
        self._DesignSpace__current_value = _FreeDict("RT_cur" + tag, CUR)


class _FreeCtx:
    """Ghost state of the file between the writer and the reader (free constants)."""

    def old_ghost(self, name, sort):
        return z3.Const("RT_" + name, sort)

    new_ghost = old_ghost


@register
class DesignSpaceHdfRoundTrip(Contract):
    """Lemmas over the contracts of to_hdf and from_hdf.  For a design space ``ds`` (variable sizes >= 1, non-empty names) written
    by to_hdf and the design space ``R`` returned by from_hdf on that node:
    (1) the node satisfies the reader's precondition;  (2) R has the same variable names in the same order, with the same sizes and
    types;  (3) add_variable got the same bounds, and a current value for a variable EXACTLY when ds has one for THAT variable - the
    same value -, so R has a current value for exactly the variables that have one in ds (incl. partially valued design spaces).
    Assumed numpy fact (hypothesis): element 0 of ``array([t] * n, dtype="bytes")`` decodes to t for n >= 1."""

    targets = ()
    prop = ("C11",)
    lemma = True

    def lemmas(self):
        c = _FreeCtx()
        ds, R = _FreeDs("0"), _FreeDs("1")
        F = DsFile(c)
        v, cv, vr, cvr = V(ds), CV(ds), V(R), CV(R)
        A = added(c)
        i, s, t, n = z3.Int("i!rt"), z3.Const("s!rt", StrS), z3.Const("t!rt", StrS), z3.Int("n!rt")
        rng = z3.And(0 <= i, i < v.n)
        key = v.keys[i]
        writer = [F.has, z3.And(F.has_names, F.n == v.n, z3.ForAll([i], z3.Implies(rng, F.el[i] == v.keys[i]))), z3.ForAll([s], F.grp[s] == v.has(s)),
                  z3.ForAll([s], z3.Implies(v.has(s), var_written(F, ds, s)))]
        sizes = z3.ForAll([s], z3.Implies(v.has(s), size(v.vals[s]) >= 1))  # (wf of the written design space)
        names_ok = z3.ForAll([s], z3.Implies(v.has(s), str_nonempty_f(s)))
        numpy_fact = z3.ForAll([t, n], z3.Implies(n >= 1, H.type_first(H.type_rep(t, n)) == t), patterns=[H.type_rep(t, n)])
        hyp = z3.And(*v.facts(), *cv.facts(), *vr.facts(), *cvr.facts(), *writer, sizes, names_ok, numpy_fact)
        reader = z3.And(*[f for _, f in _restored(c, R, F.n)])
        has_value = lambda k: z3.And(cv.has(k), z3.Not(CUR_NONE(cv.vals[k])))  # noqa: E731
        out = [(f"writer-establishes-reader-precondition:{l}", z3.Implies(hyp, f)) for l, f in ds_file_wf(F)]
        full = z3.And(hyp, reader)
        acc = lambda f, a: getattr(ARGS, f)(a)  # noqa: E731
        out += [
            ("same-names-in-the-same-order", z3.Implies(full, z3.And(vr.n == v.n, z3.ForAll([i], z3.Implies(rng, vr.keys[i] == v.keys[i]))))),
            ("same-sizes-and-types", z3.Implies(full, z3.ForAll([i], z3.Implies(rng, z3.And(v.keys[i] == F.el[i], size(vr.vals[key]) == size(v.vals[key]),
                                                                                              VAR.accessor("type")(vr.vals[key]) == VAR.accessor("type")(v.vals[key])))))),
            ("same-bounds", z3.Implies(full, z3.ForAll([i], z3.Implies(rng, z3.And(v.keys[i] == F.el[i], acc("lb", A[key]) == VAR.accessor("lower_bound")(v.vals[key]),
                                                                                     acc("ub", A[key]) == VAR.accessor("upper_bound")(v.vals[key])))))),
            ("current-value-per-variable(incl. absent)", z3.Implies(full, z3.ForAll([i], z3.Implies(rng, z3.And(
                v.keys[i] == F.el[i], cvr.has(key) == has_value(key),
                acc("value", A[key]) == z3.If(has_value(key), OPT_ND.dt.some(OPT_ND.dt.get(cv.vals[key])), OPT_ND.dt.none)))))),
        ]
        return out
