"""C02 - DesignSpace: the per-variable view and the vector view follow one variable order.

Stage 1 (this file): representation invariant WF over the ordered dictionaries
(_variables, normalize, names_to_indices, current value) and cache-invalidation protocol, for the
public mutators.  Bounds/value arrays are opaque contents here; the numerical normalisation
contracts are in c02_normalization.py.
"""
from __future__ import annotations

import z3

from pyvc import contract as C
from pyvc import gmodels as G
from pyvc.contract import Contract, LoopSpec, register, schema
from pyvc.values import (SV, TBool, TDict, TInt, TList, TNd, TObj, TOpt, TRange, TRec, TStr, TVal, ValS, forall_pat)

DS = "gemseo.algos.design_space.DesignSpace"
VARCLS = "gemseo.algos._variable.Variable"
VAR = TRec("Variable", {"size": TInt, "type": TStr, "lower_bound": TNd, "upper_bound": TNd}, cls=VARCLS)
VARS = TDict(TStr, VAR, ordered=True)
NORM = TDict(TStr, TNd, ordered=True)
NTI = TDict(TStr, TRange, ordered=True)
CUR = TDict(TStr, TOpt(TNd), ordered=True)
NCUR = TDict(TStr, TNd, ordered=True)

variable_valid = z3.Function("variable_valid", z3.IntSort(), TStr.sort(), ValS, ValS, z3.BoolSort())
conv_bound = z3.Function("conv_bound", z3.IntSort(), TStr.sort(), ValS, ValS)


def _variable_ctor(ex, args, kwargs):
    """Model of pydantic's Variable(...): validation error (a ValueError) or a record with converted bounds."""
    from pyvc.engine import PyRaise

    st = ex.st
    size, ty, lb, ub = (kwargs.get(k) for k in ("size", "type", "lower_bound", "upper_bound"))
    size = 1 if size is None else size
    ty = "float" if ty is None else ty
    lbv = G.to_val(ex, float("-inf") if lb is None else lb)
    ubv = G.to_val(ex, float("inf") if ub is None else ub)
    sz = TInt.embed(st, size)
    tt = TStr.embed(st, ty)
    ok = z3.And(sz >= 1, variable_valid(sz, tt, lbv, ubv))
    if not st.decide(ok):
        raise PyRaise("ValueError", 0)
    from pyvc.values import str_lit

    st.assume(z3.Or(tt == str_lit("float"), tt == str_lit("integer")))  # `type: DataType` is validated by pydantic
    ex.assumed.add("pydantic model Variable: construction/assignment either raises a ValueError or yields size>=1 and converted bounds (assumed)")
    return VAR.mk(st, size=size, type=ty, lower_bound=SV(conv_bound(sz, tt, lbv), TNd), upper_bound=SV(conv_bound(sz, tt, ubv), TNd))


G.RECORD_CLASSES[VARCLS] = (VAR, _variable_ctor)


def _variable_setattr(ex, rec, attr, value):
    """validate_assignment=True: assigning a bound re-validates and converts it."""
    from pyvc.engine import PyRaise

    st = ex.st
    if attr not in ("lower_bound", "upper_bound"):
        return NotImplemented
    sz, tt = VAR.accessor("size")(rec.term), VAR.accessor("type")(rec.term)
    v = G.to_val(ex, value)
    other = VAR.accessor("upper_bound" if attr == "lower_bound" else "lower_bound")(rec.term)
    lbv, ubv = (v, other) if attr == "lower_bound" else (other, v)
    if not st.decide(variable_valid(sz, tt, lbv, ubv)):
        raise PyRaise("ValueError", 0)
    return SV(conv_bound(sz, tt, v), TNd)


G.RECORD_SETATTR[VARCLS] = _variable_setattr

schema(DS, {
    "name": TStr,
    "dimension": TInt,
    "_variables": VARS,
    "normalize": NORM,
    "_DesignSpace__names_to_indices": NTI,
    "_DesignSpace__current_value": CUR,
    "_DesignSpace__has_current_value": TBool,
    "_DesignSpace__norm_data_is_computed": TBool,
    "_DesignSpace__normalize_integer_variables": TBool,
    "_DesignSpace__current_value_array": TNd,
    "_DesignSpace__norm_current_value": NCUR,
    "_DesignSpace__norm_current_value_array": TNd,
    "_DesignSpace__lower_bounds_array": TOpt(TNd),
    "_DesignSpace__upper_bounds_array": TOpt(TNd),
    "_norm_factor": TOpt(TNd),
    "_norm_factor_inv": TOpt(TNd),
    "_DesignSpace__norm_inds": TOpt(TNd),
    "_DesignSpace__integer_components": TOpt(TNd),
    "_DesignSpace__no_integer": TBool,
    "_DesignSpace__bound_tol": TVal,
    "_DesignSpace__common_dtype": TVal,
})


# ---------------------------------------------------------------------------- spec functions
def V(s):
    return s._variables


def N(s):
    return s.normalize


def I(s):  # noqa: E743
    return s._DesignSpace__names_to_indices


def CV(s):
    return s._DesignSpace__current_value


def start(t):
    return TRange.accessor("start")(t)


def stop(t):
    return TRange.accessor("stop")(t)


def size(t):
    return VAR.accessor("size")(t)


def same_key_order(a, b):
    i = z3.Int("i!sko")
    return z3.And(a.n == b.n, forall_pat([i], z3.Implies(z3.And(0 <= i, i < a.n), a.keys[i] == b.keys[i]), a.keys[i], b.keys[i]))


def _adjacent(v, rng):
    from pyvc.values import _pattern_ok

    i, j = z3.Int("i!wf"), z3.Int("j!wf")
    body = z3.Implies(z3.And(0 <= i, j == i + 1, j < v.n), start(rng(j)) == stop(rng(i)))
    if _pattern_ok(v.keys[i]) and z3.is_app(v.keys[i]) and v.keys[i].decl().kind() == z3.Z3_OP_SELECT:
        return z3.ForAll([i, j], body, patterns=[z3.MultiPattern(v.keys[i], v.keys[j])])
    return z3.ForAll([i, j], body)


def wf(s):
    """Representation invariant (structural part), written with *local adjacency*."""
    v, n, ix, cv = V(s), N(s), I(s), CV(s)
    i = z3.Int("i!wf")
    k = z3.Const("k!wfc", TStr.sort())
    rng = lambda j: ix.vals[v.keys[j]]  # noqa: E731
    return [
        ("same-order:normalize", same_key_order(v, n)),
        ("same-order:indices", same_key_order(v, ix)),
        ("sizes", forall_pat([i], z3.Implies(z3.And(0 <= i, i < v.n), z3.And(size(v.vals[v.keys[i]]) >= 1, stop(rng(i)) - start(rng(i)) == size(v.vals[v.keys[i]]))),
                            v.keys[i])),
        ("first-at-zero", z3.Implies(v.n > 0, start(rng(0)) == 0)),
        # two bound variables and a multi-pattern: instantiated only for pairs of positions that already occur, so that no
        # successor terms keys[i+1], keys[i+2], ... are generated (matching loop)
        ("adjacent", _adjacent(v, rng)),
        ("dimension", s.dimension == z3.If(v.n == 0, 0, stop(rng(v.n - 1)))),
        ("values-of-known-variables", z3.ForAll([k], z3.Implies(cv.has(k), v.has(k)))),
    ]


def wf_all(s):
    return z3.And(*[f for _, f in wf(s)])


def same_members_and_positions(a, b):
    """Consequence of `same_key_order(a, b)` and the order views of both dicts (SameOrderLemma): same members at the same positions."""
    k = z3.Const("k!smp", TStr.sort())
    return z3.ForAll([k], z3.And(a.has(k) == b.has(k), z3.Implies(a.has(k), a.pos[k] == b.pos[k])))


def derived_wf(s):
    """Facts implied by wf(s) (proved once, generically, in SameOrderLemma); handed to the provers as hypotheses next to wf(s) so that
    proofs do not depend on the solver guessing the position of a key in a sibling dictionary."""
    v, n, ix = V(s), N(s), I(s)
    both = z3.And(same_members_and_positions(v, n), same_members_and_positions(v, ix))
    return [("derived:same-members-and-positions", z3.Implies(z3.And(same_key_order(v, n), same_key_order(v, ix)), both))]


@register
class SameOrderLemma(Contract):
    """Two ordered dicts with the same key sequence have the same members at the same positions."""

    targets = ()
    prop = ("C02", "C01")  # (C01: cited by __update_normalization_vars@lnk, contracts/c02_more.py)
    lemma = True

    def lemmas(self):
        K = TStr.sort()
        mk = lambda nm: (z3.Const(nm + "_mem", z3.ArraySort(K, z3.BoolSort())), z3.Const(nm + "_keys", z3.ArraySort(z3.IntSort(), K)),  # noqa: E731
                         z3.Const(nm + "_pos", z3.ArraySort(K, z3.IntSort())), z3.Int(nm + "_n"))
        (ma, ka, pa, na), (mb, kb, pb, nb) = mk("a"), mk("b")
        k, i = z3.Const("k", K), z3.Int("i")

        def order(m, ks, ps, n):
            return z3.And(n >= 0, z3.ForAll([k], z3.Implies(m[k], z3.And(0 <= ps[k], ps[k] < n, ks[ps[k]] == k)), patterns=[ps[k]]),
                          z3.ForAll([i], z3.Implies(z3.And(0 <= i, i < n), z3.And(m[ks[i]], ps[ks[i]] == i)), patterns=[ks[i]]))

        same = z3.And(na == nb, z3.ForAll([i], z3.Implies(z3.And(0 <= i, i < na), ka[i] == kb[i])))
        hyp = z3.And(order(ma, ka, pa, na), order(mb, kb, pb, nb), same)
        x = z3.Const("x", K)
        return [("a-member-is-b-member-at-the-same-position", z3.Implies(z3.And(hyp, ma[x]), z3.And(mb[x], pb[x] == pa[x]))),
                ("b-member-is-a-member-at-the-same-position", z3.Implies(z3.And(hyp, mb[x]), z3.And(ma[x], pa[x] == pb[x])))]


def caches_invalidated(s0, s1):
    """A mutator must drop the normalisation data; cached current-value arrays may only survive if
    they were already empty."""
    return [("norm-data-dropped", z3.Not(s1._DesignSpace__norm_data_is_computed))]


def without_key(d1, d0, name):
    """d1 = d0 with `name` removed, order of the others kept, values kept."""
    i = z3.Int("i!wo")
    k = z3.Const("k!wo", TStr.sort())
    p = d0.pos[name]
    return z3.And(
        d1.n == d0.n - 1,
        z3.ForAll([i], z3.Implies(z3.And(0 <= i, i < d1.n), d1.keys[i] == z3.If(i < p, d0.keys[i], d0.keys[i + 1]))),
        z3.ForAll([k], d1.has(k) == z3.And(d0.has(k), k != name)),
        z3.ForAll([k], z3.Implies(d1.has(k), d1.vals[k] == d0.vals[k])),
    )


def renamed_key(d1, d0, old, new):
    """d1 = d0 with key `old` replaced by `new` *at the same position*, values kept."""
    i = z3.Int("i!rn")
    k = z3.Const("k!rn", TStr.sort())
    return [
        ("size", d1.n == d0.n),
        ("order", z3.ForAll([i], z3.Implies(z3.And(0 <= i, i < d1.n), d1.keys[i] == z3.If(d0.keys[i] == old, new, d0.keys[i])))),
        ("members-kept", z3.ForAll([k], z3.Implies(z3.And(d0.has(k), k != old), d1.has(k)))),
        # (mentions d1.pos[k] so that the order view of d1 is instantiated at k; pos >= 0 holds for every member)
        ("members-only", z3.ForAll([k], z3.Implies(z3.And(d1.has(k), d1.pos[k] >= 0), z3.Or(z3.And(d0.has(k), k != old), k == new)))),
        ("new-member", d1.has(new)),
        ("values-kept", z3.ForAll([k], z3.Implies(z3.And(d0.has(k), k != old), d1.vals[k] == d0.vals[k]))),
        ("renamed-value", d1.vals[new] == d0.vals[old]),
    ]


def appended_key(d1, d0, name):
    i = z3.Int("i!ap")
    k = z3.Const("k!ap", TStr.sort())
    return z3.And(
        d1.n == d0.n + 1, d1.keys[d0.n] == name,
        z3.ForAll([i], z3.Implies(z3.And(0 <= i, i < d0.n), d1.keys[i] == d0.keys[i])),
        z3.ForAll([k], d1.has(k) == z3.Or(d0.has(k), k == name)),
        z3.ForAll([k], z3.Implies(d0.has(k), d1.vals[k] == d0.vals[k])),
    )


def unchanged_dict(d1, d0):
    i = z3.Int("i!ud")
    k = z3.Const("k!ud", TStr.sort())
    return z3.And(d1.n == d0.n, z3.ForAll([i], z3.Implies(z3.And(0 <= i, i < d0.n), d1.keys[i] == d0.keys[i])),
                  z3.ForAll([k], z3.And(d1.has(k) == d0.has(k), z3.Implies(d0.has(k), d1.vals[k] == d0.vals[k]))))


# ---------------------------------------------------------------------------- small helpers under contract
@register
class UpdateCurrentStatus(Contract):
    """__has_current_value <=> every variable has a non-None current value."""

    targets = (DS + ".__update_current_status",)
    prop = ("C02",)
    modifies = ("self",)
    loops = {0: LoopSpec(anchor="self.__current_value.values()", inv=lambda c, k: _status_inv(c, k))}

    def requires(self, c):
        return [("values-of-known-variables", wf(c.old.self)[-1][1])]

    def ensures(self, c):
        s0, s1 = c.old.self, c.new.self
        k = z3.Const("k!st", TStr.sort())
        cv, v = CV(s0), V(s0)
        full = z3.And(cv.n != 0, z3.ForAll([k], cv.has(k) == v.has(k)), z3.ForAll([k], z3.Implies(cv.has(k), z3.Not(CUR.v.is_none(cv.vals[k])))))
        return [("flag", s1._DesignSpace__has_current_value == full)] + _only_field_changed(s0, s1, "_DesignSpace__has_current_value", caches_too=False)


def _status_inv(c, k):
    cv = CV(c.old.self)
    i = z3.Int("i!si")
    return [("prefix-not-none", z3.ForAll([i], z3.Implies(z3.And(0 <= i, i < k), z3.Not(CUR.v.is_none(cv.vals[cv.keys[i]])))))]


STRUCT_FIELDS = ("dimension", "_variables", "normalize", "_DesignSpace__names_to_indices", "_DesignSpace__current_value")
DICT_FIELDS = ("_variables", "normalize", "_DesignSpace__names_to_indices", "_DesignSpace__current_value", "_DesignSpace__norm_current_value")
# fields that are caches of the current value / status flags: a helper may refresh them
CACHE_FIELDS = ("_DesignSpace__has_current_value", "_DesignSpace__current_value_array", "_DesignSpace__norm_current_value",
                "_DesignSpace__norm_current_value_array")


def _only_field_changed(s0, s1, *fields, caches_too=True):
    """Whole-object postcondition helper: every declared field not listed (and, unless
    ``caches_too`` is False, not a current-value cache) is unchanged."""
    out = []
    for f in C.class_schema(DS):
        if f in fields or (caches_too and f in CACHE_FIELDS):
            continue
        a, b = getattr(s0, f), getattr(s1, f)
        if f in DICT_FIELDS:
            out.append((f"kept:{f}", unchanged_dict(b, a)))
        elif isinstance(a, C.View):
            out.append((f"kept:{f}", a.term == b.term))
        else:
            out.append((f"kept:{f}", a == b))
    return out


@register
class ClearDependentData(Contract):
    targets = (DS + ".__clear_dependent_data",)
    prop = ("C02",)
    modifies = ("self",)

    def ensures(self, c):
        s0, s1 = c.old.self, c.new.self
        return [("norm-current-value-dropped", z3.And(s1._DesignSpace__norm_current_value.n == 0, G.nd_len(s1._DesignSpace__norm_current_value_array) == 0,
                                                      G.nd_len(s1._DesignSpace__current_value_array) == 0)),
                ("flags-kept", s1._DesignSpace__has_current_value == s0._DesignSpace__has_current_value)] + _only_field_changed(s0, s1)


@register
class UpdateCurrentMetadata(Contract):
    targets = (DS + ".__update_current_metadata",)
    prop = ("C02",)
    modifies = ("self",)

    def requires(self, c):
        return [("values-of-known-variables", wf(c.old.self)[-1][1])]

    def ensures(self, c):
        s0, s1 = c.old.self, c.new.self
        return [("dependent-data-dropped-when-complete", z3.Implies(s1._DesignSpace__has_current_value, s1._DesignSpace__norm_current_value.n == 0))] + \
            _only_field_changed(s0, s1)


@register
class AddNormPolicy(Contract):
    """normalize[name] := policy(variable, integer-normalisation flag); everything else kept."""

    targets = (DS + "._add_norm_policy",)
    prop = ("C02",)
    params = {"name": TStr}
    modifies = ("self",)
    raises = {"ValueError": lambda c: z3.Not(V(c.old.self).has(c.old.name))}

    def ensures(self, c):
        s0, s1 = c.old.self, c.new.self
        n0, n1 = N(s0), N(s1)
        nm = c.old.name
        return [("normalize", z3.If(n0.has(nm), z3.And(same_key_order(n1, n0), _vals_kept_except(n1, n0, nm)), appended_key(n1, n0, nm))),
                ] + _only_field_changed(s0, s1, "normalize", caches_too=False)


def _vals_kept_except(d1, d0, name):
    k = z3.Const("k!ve", TStr.sort())
    return z3.ForAll([k], z3.And(d1.has(k) == d0.has(k), z3.Implies(z3.And(d0.has(k), k != name), d1.vals[k] == d0.vals[k])))


# ---------------------------------------------------------------------------- mutators
@register
class RemoveVariable(Contract):
    targets = (DS + ".remove_variable",)
    prop = ("C02",)
    params = {"name": TStr}
    modifies = ("self",)
    raises = {"KeyError": lambda c: z3.Not(V(c.old.self).has(c.old.name))}
    loops = {0: LoopSpec(anchor="self", modifies=("self._DesignSpace__names_to_indices#vals",), inv=lambda c, k: _remove_inv(c, k))}

    def requires(self, c):
        return wf(c.old.self)

    def axioms(self, c):
        return derived_wf(c.old.self)

    def ensures(self, c):
        s0, s1 = c.old.self, c.new.self
        nm = c.old.name
        cv0, cv1 = CV(s0), CV(s1)
        return wf(s1) + [
            ("variables", without_key(V(s1), V(s0), nm)),
            ("normalize", without_key(N(s1), N(s0), nm)),
            ("current-value", z3.If(cv0.has(nm), without_key(cv1, cv0, nm), unchanged_dict(cv1, cv0))),
            ("dimension", s1.dimension == s0.dimension - size(V(s0).vals[nm])),
        ] + caches_invalidated(s0, s1)


def _remove_inv(c, k):
    """While shifting the index ranges (only the *values* of names_to_indices change in the loop): the entries of the variables
    located after `name` among the first k variables are shifted by its size, the others still have their entry value."""
    s0, pre, s = c.old.self, c.pre_locals["self"], c.new.self
    nm = c.old.name
    v0 = V(s0)
    ixe, ix = I(pre), I(s)  # the dictionary at loop entry (`name` already deleted) / now
    p = v0.pos[nm]
    sz = size(v0.vals[nm])
    x = z3.Const("k!ri", TStr.sort())
    shifted = lambda t: TRange.dt.mk(start(t) - sz, stop(t) - sz)  # noqa: E731
    pat = [ix.vals[x], v0.pos[x]]
    return [
        ("reached", c.locals["variable_is_reached"] == (p < k)),
        ("size", c.locals["size"] == sz),
        ("indices:shifted-after-name", z3.ForAll([x], z3.Implies(z3.And(v0.has(x), x != nm, v0.pos[x] > p, v0.pos[x] < k), ix.vals[x] == shifted(ixe.vals[x])), patterns=pat)),
        ("indices:others-kept", z3.ForAll([x], z3.Implies(z3.And(v0.has(x), x != nm, z3.Or(v0.pos[x] < p, v0.pos[x] >= k)), ix.vals[x] == ixe.vals[x]), patterns=pat)),
    ]


def without_key_order(d1, d0, name):
    i = z3.Int("i!wko")
    p = d0.pos[name]
    return z3.ForAll([i], z3.Implies(z3.And(0 <= i, i < d0.n - 1), d1.keys[i] == z3.If(i < p, d0.keys[i], d0.keys[i + 1])))


@register
class RenameVariable(Contract):
    targets = (DS + ".rename_variable",)
    prop = ("C02",)
    params = {"current_name": TStr, "new_name": TStr}
    modifies = ("self",)
    raises = {"ValueError": lambda c: z3.Not(V(c.old.self).has(c.old.current_name))}

    def requires(self, c):
        s = c.old.self
        return wf(s) + [("new-name-is-free", z3.Or(z3.Not(V(s).has(c.old.new_name)), c.old.new_name == c.old.current_name))]

    def ensures(self, c):
        s0, s1 = c.old.self, c.new.self
        a, b = c.old.current_name, c.old.new_name
        cv0, cv1 = CV(s0), CV(s1)
        k = z3.Const("k!rv", TStr.sort())
        return wf(s1) + [
        ] + [(f"variables-renamed-in-place:{l}", f) for l, f in renamed_key(V(s1), V(s0), a, b)] + [
            (f"normalize-renamed-in-place:{l}", f) for l, f in renamed_key(N(s1), N(s0), a, b)] + [
            ("current-value-renamed", z3.And(z3.ForAll([k], cv1.has(k) == z3.Or(z3.And(cv0.has(k), k != a), z3.And(k == b, cv0.has(a), z3.Not(CUR.v.is_none(cv0.vals[a]))))),
                                             z3.ForAll([k], z3.Implies(z3.And(cv0.has(k), k != a, k != b), cv1.vals[k] == cv0.vals[k])),
                                             z3.Implies(cv1.has(b), cv1.vals[b] == cv0.vals[a]))),
            ("dimension", s1.dimension == s0.dimension),
        ]


@register
class SetCurrentVariable(Contract):
    targets = (DS + ".set_current_variable",)
    prop = ("C02",)
    params = {"name": TStr, "current_value": TNd}
    modifies = ("self",)
    raises = {"ValueError": lambda c: z3.Not(V(c.old.self).has(c.old.name))}

    def requires(self, c):
        # (only what the function needs: it is also called while the index ranges are being rebuilt)
        return [wf(c.old.self)[-1]]

    def ensures(self, c):
        s0, s1 = c.old.self, c.new.self
        cv0, cv1 = CV(s0), CV(s1)
        k = z3.Const("k!scv", TStr.sort())
        nm = c.old.name
        return [wf(s1)[-1]] + [
            ("value-set", z3.And(cv1.has(nm), cv1.vals[nm] == CUR.v.dt.some(c.old.current_value))),
            ("others-kept", z3.ForAll([k], z3.Implies(k != nm, z3.And(cv1.has(k) == cv0.has(k), z3.Implies(cv0.has(k), cv1.vals[k] == cv0.vals[k]))))),
            ("dependent-data-dropped-when-complete", z3.Implies(s1._DesignSpace__has_current_value, s1._DesignSpace__norm_current_value.n == 0)),
        ] + _only_field_changed(s0, s1, "_DesignSpace__current_value")


class _SetBound(Contract):
    prop = ("C02",)
    modifies = ("self",)
    which = "lower_bound"

    @property
    def params(self):
        return {"name": TStr, self.which: TNd}

    raises = {"ValueError": None}

    def requires(self, c):
        return wf(c.old.self)

    def axioms(self, c):
        return derived_wf(c.old.self)

    def ensures(self, c):
        s0, s1 = c.old.self, c.new.self
        v0, v1 = V(s0), V(s1)
        nm = c.old.name
        k = z3.Const("k!sb", TStr.sort())
        other = "upper_bound" if self.which == "lower_bound" else "lower_bound"
        return wf(s1) + [
            ("variables-order", same_key_order(v1, v0)),
            ("other-variables-kept", z3.ForAll([k], z3.And(v1.has(k) == v0.has(k), z3.Implies(z3.And(v0.has(k), k != nm), v1.vals[k] == v0.vals[k])))),
            ("same-size-type-other-bound", z3.And(size(v1.vals[nm]) == size(v0.vals[nm]), VAR.accessor("type")(v1.vals[nm]) == VAR.accessor("type")(v0.vals[nm]),
                                                  VAR.accessor(other)(v1.vals[nm]) == VAR.accessor(other)(v0.vals[nm]))),
            # the normalised current value depends on the bounds: it must not survive a change of bounds
            ("normalized-current-value-dropped", z3.And(s1._DesignSpace__norm_current_value.n == 0, G.nd_len(s1._DesignSpace__norm_current_value_array) == 0)),
        ] + caches_invalidated(s0, s1) + _only_field_changed(s0, s1, "_variables", "normalize", "_DesignSpace__norm_data_is_computed")

    def raise_ensures(self, c, exc):
        return []


@register
class SetLowerBound(_SetBound):
    targets = (DS + ".set_lower_bound",)
    which = "lower_bound"


@register
class SetUpperBound(_SetBound):
    targets = (DS + ".set_upper_bound",)
    which = "upper_bound"


# ---------------------------------------------------------------------------- add_variable
def _types_to_dtypes(ex):
    """DesignSpace.VARIABLE_TYPES_TO_DTYPES: a mapping defined for both variable types (values: numpy scalar types, opaque)."""
    st = ex.st
    d = TDict(TStr, TVal).fresh(st, "TYPE_MAP")
    o = st.heap[d.id]
    from pyvc.values import str_lit

    st.assume(z3.And(o.member[str_lit("float")], o.member[str_lit("integer")]))
    return d


G.CLASS_CONSTANTS[(DS, "VARIABLE_TYPES_TO_DTYPES")] = _types_to_dtypes


@register
class CheckValue(Contract):
    targets = (DS + "._check_value",)
    prop = ("C02",)
    params = {"value": TNd, "name": TStr}
    returns = TBool
    raises = {"ValueError": None}
    trusted = True
    description = "assumed: _check_value only inspects the value (numpy.vectorize based checks): it raises ValueError or returns, and changes nothing"


@register
class CheckCurrentValue(Contract):
    targets = (DS + "._check_current_value",)
    prop = ("C02",)
    params = {"name": TStr}
    raises = {"ValueError": None}
    trusted = True
    description = "assumed: _check_current_value compares the current value with the bounds: it raises ValueError or returns, and changes nothing"


@register
class AddVariable(Contract):
    """A new variable is appended last: index range [dimension, dimension + size), every other variable untouched."""

    targets = (DS + ".add_variable",)
    prop = ("C02",)
    params = {"name": TStr, "size": TInt, "type_": TStr, "lower_bound": TNd, "upper_bound": TNd, "value": TOpt(TNd)}
    modifies = ("self",)
    raises = {"ValueError": None}

    def requires(self, c):
        return wf(c.old.self)

    def axioms(self, c):
        return derived_wf(c.old.self)

    def ensures(self, c):
        s0, s1 = c.old.self, c.new.self
        nm, sz = c.old.name, c.old.size
        v0, v1 = V(s0), V(s1)
        cv0, cv1 = CV(s0), CV(s1)
        k = z3.Const("k!av", TStr.sort())
        has_value = z3.Not(c.old.value.is_none())
        return wf(s1) + [
            ("was-a-new-name", z3.Not(v0.has(nm))),
            ("variables-appended", appended_key(v1, v0, nm)),
            ("normalize-appended", appended_key(N(s1), N(s0), nm)),
            ("indices-appended", appended_key(I(s1), I(s0), nm)),
            ("index-range", z3.And(start(I(s1).vals[nm]) == s0.dimension, stop(I(s1).vals[nm]) == s0.dimension + sz)),
            ("size-and-type", z3.And(size(v1.vals[nm]) == sz, VAR.accessor("type")(v1.vals[nm]) == c.old.type_)),
            ("dimension", s1.dimension == s0.dimension + sz),
            ("other-values-kept", z3.ForAll([k], z3.Implies(k != nm, z3.And(cv1.has(k) == cv0.has(k), z3.Implies(cv0.has(k), cv1.vals[k] == cv0.vals[k]))))),
            ("value-set-iff-given", cv1.has(nm) == has_value),
        ] + caches_invalidated(s0, s1)


# ---------------------------------------------------------------------------- filter_dimensions
@register
class GetCurrentValue(Contract):
    targets = (DS + ".get_current_value",)
    prop = ("C02",)
    params = {"variable_names": TList(TStr)}
    returns = TNd
    modifies = ("self",)
    raises_exact = False
    trusted = True

    @property
    def raises(self):
        def some_name_without_value(c):
            i = z3.Int("i!gcv")
            L, cv = c.old.variable_names, CV(c.old.self)
            return z3.Exists([i], z3.And(0 <= i, i < L.n, z3.Not(cv.has(L.elems[i]))))

        return {"ValueError": None, "KeyError": some_name_without_value}

    description = ("assumed (frame only): get_current_value may fill the cached current-value arrays and changes nothing else; "
                   "the returned array is an opaque function of the current values (conversions dict<->array are not under contract)")

    def ensures(self, c):
        return _only_field_changed(c.old.self, c.new.self)


def _filter_inv(c, k):
    """Index ranges of the first k variables are updated: `name` shrinks, the following ones shift."""
    # relative to the state at loop entry (the dictionary object iterated over), not to the function entry
    s0, s = c.pre_locals["self"], c.new.self
    nm = c.old.name
    ix0, ix = I(s0), I(s)
    p = ix0.pos[nm]
    nr = c.locals["n_removed"]
    x = z3.Const("k!fi", TStr.sort())
    r0 = lambda t: ix0.vals[t]  # noqa: E731
    done = lambda t: z3.And(ix0.has(t), ix0.pos[t] < k)  # noqa: E731
    shrunk = lambda t: TRange.dt.mk(start(r0(t)), stop(r0(t)) - nr)  # noqa: E731
    shifted = lambda t: TRange.dt.mk(start(r0(t)) - nr, stop(r0(t)) - nr)  # noqa: E731
    pat = [ix.vals[x], ix0.pos[x]]  # alternative triggers
    return [
        ("reached", c.locals["name_reached"] == (p < k)),
        ("indices:not-yet-visited", z3.ForAll([x], z3.Implies(z3.And(ix0.has(x), ix0.pos[x] >= k), ix.vals[x] == r0(x)), patterns=pat)),
        ("indices:before-name", z3.ForAll([x], z3.Implies(z3.And(done(x), ix0.pos[x] < p), ix.vals[x] == r0(x)), patterns=pat)),
        ("indices:name-shrunk", z3.Implies(p < k, ix.vals[nm] == shrunk(nm))),
        ("indices:after-name-shifted", z3.ForAll([x], z3.Implies(z3.And(done(x), ix0.pos[x] > p), ix.vals[x] == shifted(x)), patterns=pat)),
    ]


@register
class FilterDimensions(Contract):
    """Only the listed components of `name` are kept: its size becomes len(dimensions), the following variables shift, order kept."""

    targets = (DS + ".filter_dimensions",)
    prop = ("C02",)
    params = {"name": TStr, "dimensions": TList(TInt)}
    modifies = ("self",)
    raises = {"ValueError": None}
    loops = {0: LoopSpec(anchor="self.__names_to_indices.items()", modifies=("self._DesignSpace__names_to_indices#vals",), inv=_filter_inv,
                         local_types={"_name": TStr, "indices": TRange})}

    def requires(self, c):
        return wf(c.old.self)

    def axioms(self, c):
        return derived_wf(c.old.self)

    def ensures(self, c):
        s0, s1 = c.old.self, c.new.self
        nm = c.old.name
        v0, v1 = V(s0), V(s1)
        k = z3.Const("k!fd", TStr.sort())
        n_kept = c.old.dimensions.n
        return wf(s1) + [
            ("known-variable", v0.has(nm)),
            ("variables-order", same_key_order(v1, v0)),
            ("other-variables-kept", z3.ForAll([k], z3.And(v1.has(k) == v0.has(k), z3.Implies(z3.And(v0.has(k), k != nm), v1.vals[k] == v0.vals[k])))),
            ("new-size", size(v1.vals[nm]) == n_kept),
            ("same-type", VAR.accessor("type")(v1.vals[nm]) == VAR.accessor("type")(v0.vals[nm])),
            ("dimension", s1.dimension == s0.dimension - (size(v0.vals[nm]) - n_kept)),
            # (the policy of `name` is filtered like its bounds - repaired in /repo 4b13d7d; its content is proved at the link level:
            # contracts/c02_more.py FilterDimensionsLnk - the policies of the other variables and the order are kept)
            ("other-policies-kept", z3.And(same_key_order(N(s1), N(s0)), _vals_kept_except(N(s1), N(s0), nm))),
        ] + caches_invalidated(s0, s1)


# ---------------------------------------------------------------------------- integer-normalisation toggle
@register
class EnableIntegerNormalizationSetter(Contract):
    """Toggling the flag recomputes the policies of the integer variables and drops every cache that depends on them."""

    targets = (DS + ".enable_integer_variables_normalization",)
    setter = True
    prop = ("C02",)
    params = {"value": TBool}
    modifies = ("self",)
    loops = {0: LoopSpec(anchor="self._variables.items()", modifies=("self.normalize#vals",), inv=lambda c, k: [], local_types={"name": TStr, "variable": VAR})}

    def requires(self, c):
        return wf(c.old.self)

    def axioms(self, c):
        return derived_wf(c.old.self)

    def ensures(self, c):
        s0, s1 = c.old.self, c.new.self
        changed = c.old.value != s0._DesignSpace__normalize_integer_variables
        return wf(s1) + [
            ("flag-set", s1._DesignSpace__normalize_integer_variables == c.old.value),
            ("variables-kept", unchanged_dict(V(s1), V(s0))),
            ("indices-kept", unchanged_dict(I(s1), I(s0))),
            ("values-kept", unchanged_dict(CV(s1), CV(s0))),
            ("dimension", s1.dimension == s0.dimension),
            ("policies-keep-their-order", same_key_order(N(s1), N(s0))),
            ("norm-data-dropped-on-change", z3.Implies(changed, z3.Not(s1._DesignSpace__norm_data_is_computed))),
            # the normalised current value depends on the policies: it must not survive a change of the flag
            ("normalized-current-value-dropped-on-change", z3.Implies(changed, z3.And(s1._DesignSpace__norm_current_value.n == 0,
                                                                                     G.nd_len(s1._DesignSpace__norm_current_value_array) == 0))),
        ]
