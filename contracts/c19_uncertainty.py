"""C19 - probability distributions and parameter spaces are self-consistent (gemseo's OWN side).

The third-party distribution objects (SciPy frozen distributions, OpenTURNS distributions) are ABSTRACT (pyvc/plug_c19.py): what they
answer are the uninterpreted functions c19_cdf / c19_icdf / c19_mean / c19_std / c19_interval_* / c19_range_* of the object.  Their numerical
values, the agreement of SciPy and OpenTURNS and the statistics of samples are out of reach of function contracts (see not_covered).

Layer B (wrappers, precise rank-1 arrays): SPDistribution / OTDistribution delegate to the wrapped object (what is reported IS what the wrapped
  object reports); the joint distributions evaluate component i with marginal i.
Layer A (ParameterSpace, design space seen through its C02 representation): evaluate_cdf / transform_vect / untransform_vect send the block of
  every uncertain variable through ITS OWN joint distribution and every deterministic block through the design-space (affine) map, in the
  variable order; partition uncertain / deterministic; removal; samples.
Lemmas: round trips over the contracts + the ASSUMED inverse axioms of the third-party marginals.
"""
from __future__ import annotations

import z3

from pyvc import contract as C
from pyvc import gmodels as G
from pyvc.contract import Contract, LoopSpec, register, schema
from pyvc.npmodel import TArr, is_inf, is_ninf
from pyvc.plug_c19 import (DRAW_GHOSTS, F1, F2, INT, REAL, TPD, cdf_v, finite_hi, finite_lo, icdf_v, interval_hi, interval_lo, mean_v, pdf_v, range_hi,
                           range_lo, std_v)
from pyvc.values import SV, TBool, TDict, TInt, TList, TOpt, TReal, TRec, TStr, TVal, declare_ghost, forall_pat, str_lit

U = "gemseo.uncertainty.distributions."
BD = U + "base_distribution.BaseDistribution"
BJ = U + "base_joint.BaseJointDistribution"
SPD = U + "scipy.distribution.SPDistribution"
OTD = U + "openturns.distribution.OTDistribution"
SPJ = U + "scipy.joint.SPJointDistribution"
OTJ = U + "openturns.joint.OTJointDistribution"

# ---------------------------------------------------------------------------- Layer B: scalar wrappers
_SCALAR = {"distribution": TPD, "math_lower_bound": TReal, "math_upper_bound": TReal, "num_lower_bound": TReal, "num_upper_bound": TReal,
           "transformation": TStr}
schema(BD, _SCALAR)
schema(SPD, _SCALAR)
schema(OTD, _SCALAR)


def D(s):
    return s.distribution.term


def el(a, *i):
    return z3.Select(a.obj.elems, *i)


def ln(a, j=0):
    return a.obj.shape[j]


class _Wrap(Contract):
    prop = ("C19",)
    numpy = "precise"
    c19 = True


def _delegation(cls, name, params, returns, post, doc):
    """One contract class per delegating method: the result IS what the wrapped object reports (nothing is modified)."""

    def ensures(self, c):
        return post(c)

    ct = type(f"{cls.rsplit('.', 1)[-1]}_{name}", (_Wrap,), {"targets": (f"{cls}.{name}",), "params": params, "returns": returns, "ensures": ensures, "__doc__": doc,
                                                            "__module__": __name__})
    return register(ct)


for _cls in (SPD, OTD):
    _delegation(_cls, "compute_cdf", {"value": TReal}, TReal, lambda c: [("is-the-wrapped-cdf", c.result == cdf_v(D(c.old.self), c.old.value))],
                "compute_cdf(x) is the CDF of the wrapped distribution at x.")
    _delegation(_cls, "compute_inverse_cdf", {"value": TReal}, TReal, lambda c: [("is-the-wrapped-inverse-cdf", c.result == icdf_v(D(c.old.self), c.old.value))],
                "compute_inverse_cdf(u) is the quantile function of the wrapped distribution at u.")
    _delegation(_cls, "_cdf", {"level": TReal}, TReal, lambda c: [("is-the-wrapped-cdf", c.result == cdf_v(D(c.old.self), c.old.level))], "_cdf(x) is the wrapped CDF at x.")
    _delegation(_cls, "_pdf", {"value": TReal}, TReal, lambda c: [("is-the-wrapped-pdf", c.result == pdf_v(D(c.old.self), c.old.value))], "_pdf(x) is the wrapped PDF at x.")
    _delegation(_cls, "mean", {}, TReal, lambda c: [("is-the-wrapped-mean", c.result == mean_v(D(c.old.self)))], "mean is the mean the wrapped distribution reports.")
    _delegation(_cls, "standard_deviation", {}, TReal, lambda c: [("is-the-wrapped-standard-deviation", c.result == std_v(D(c.old.self)))],
                "standard_deviation is the standard deviation the wrapped distribution reports.")


def _two(c, lo, hi):
    r = c.result
    return [("two-bounds", ln(r) == 2), ("lower-then-upper", z3.And(el(r, 0) == lo, el(r, 1) == hi))]


for _cls in (BD,):
    _delegation(_cls, "range", {}, F1, lambda c: _two(c, c.old.self.num_lower_bound, c.old.self.num_upper_bound),
                "range = [numerical lower bound, numerical upper bound] as recorded at creation.")
    _delegation(_cls, "support", {}, F1, lambda c: _two(c, c.old.self.math_lower_bound, c.old.self.math_upper_bound),
                "support = [mathematical lower bound, mathematical upper bound] as recorded at creation.")


# ---------------------------------------------------------------------------- Layer B: creation (what is recorded at creation IS what the wrapped object reports)
from fractions import Fraction  # noqa: E402

from pyvc.models import str_concat, str_nonempty_f  # noqa: E402
from pyvc.plug_c19 import ARGS, KWR, OPTR, composite, created_args, created_kw, created_lib, created_name, truncated  # noqa: E402


def rv(x: float):
    """The real number a float literal denotes (exactly)."""
    fr = Fraction(x)
    return z3.RealVal(fr.numerator) / z3.RealVal(fr.denominator) if fr.denominator != 1 else z3.RealVal(fr.numerator)


def dict_term(ty, d):
    return ty.dt.mk(d.member, d.vals, d.n)


def list_term(ty, v):
    return ty.dt.mk(v.n, v.elems)


@register
class CreateFromModule(Contract):
    targets = (BD + "._create_distribution_from_module",)
    prop = ("C19",)
    trusted = True
    description = ("assumed (third party): getattr(module, name)(**parameters) / (*parameters) either fails (ImportError when the name is unknown, ValueError when "
                   "the library rejects the parameters) or returns a distribution object made from exactly (library, name, parameters) - recorded by the "
                   "uninterpreted functions c19_created_library / _name / _keywords / _arguments; nothing of gemseo's state changes")
    params = {"distribution_name": TStr}
    returns = TPD
    raises = {"ImportError": None, "ValueError": None}

    def ensures(self, c):
        d = c.result.term
        mod, p = c.arg("module"), c.arg("parameters")
        out = [("library", created_lib(d) == str_lit(getattr(mod, "name", "?"))), ("name", created_name(d) == c.old.distribution_name)]
        o = c._old_heap.get(p.id) if hasattr(p, "id") else None
        if o is not None and hasattr(o, "member"):
            out.append(("keywords", created_kw(d) == KWR.dt.mk(o.member, o.vals, o.n)))
        elif o is not None and hasattr(o, "elems"):
            out.append(("arguments", created_args(d) == ARGS.dt.mk(o.n, o.elems)))
        elif isinstance(p, tuple):
            out.append(("arguments", created_args(d) == ARGS.embed(c.st, p)))
        return out


def sterm(x):
    return str_lit(x) if isinstance(x, str) else x


def _made_from(d, lib, name):
    return z3.And(created_lib(d) == str_lit(lib), created_name(d) == (str_lit(name) if isinstance(name, str) else name))


@register
class SPCreate(_Wrap):
    """The wrapped object is made from (scipy.stats, name, parameters) and nothing else; the recorded support is its interval(1.0), the recorded
    range its quantiles at 1e-12 and 1 - 1e-12: what range / support report IS what the wrapped object reports."""

    targets = (SPD + "._create_distribution",)
    params = {"distribution_name": TStr, "parameters": KWR}
    modifies = ("self",)
    raises = {"ImportError": None, "ValueError": None}

    def ensures(self, c):
        s = c.new.self
        d = D(s)
        return [("made-from-the-given-name-and-parameters", z3.And(_made_from(d, "scipy.stats", c.old.distribution_name), created_kw(d) == dict_term(KWR, c.old.parameters))),
                ("support-is-the-wrapped-interval-of-probability-1", z3.And(s.math_lower_bound == interval_lo(d, 1), s.math_upper_bound == interval_hi(d, 1))),
                ("range-is-the-wrapped-quantiles-at-1e-12", z3.And(s.num_lower_bound == icdf_v(d, rv(1e-12)), s.num_upper_bound == icdf_v(d, rv(1 - 1e-12)))),
                ("transformation-kept", sterm(s.transformation) == sterm(c.old.self.transformation))]


def _ot_bounds(s, d):
    return [("range-is-the-wrapped-range", z3.And(s.num_lower_bound == range_lo(d), s.num_upper_bound == range_hi(d))),
            ("finite-support-bounds-are-the-wrapped-range", z3.And(z3.Implies(finite_lo(d), s.math_lower_bound == range_lo(d)),
                                                                  z3.Implies(finite_hi(d), s.math_upper_bound == range_hi(d)))),
            ("infinite-support-bounds", z3.And(z3.Implies(z3.Not(finite_lo(d)), is_ninf(s.math_lower_bound)), z3.Implies(z3.Not(finite_hi(d)), is_inf(s.math_upper_bound))))]


@register
class OTSetBounds(_Wrap):
    """range = the bounds of getRange(); support = the same bounds where getRange() says they are finite, -inf / +inf elsewhere."""

    targets = (OTD + ".__set_bounds",)
    params = {"distribution": TPD}
    modifies = ("self",)

    def ensures(self, c):
        s = c.new.self
        return _ot_bounds(s, c.arg("distribution").term) + [("wrapped-object-kept", D(s) == D(c.old.self)), ("transformation-kept", sterm(s.transformation) == sterm(c.old.self.transformation))]


@register
class OTTransform(Contract):
    targets = (OTD + ".__transform_distribution",)
    prop = ("C19",)
    trusted = True
    description = ("assumed (third party + string formatting): __transform_distribution returns CompositeDistribution(SymbolicFunction(['x'], [t]), d) = "
                   "c19_composite(d, t) and only rewrites the attribute `transformation`")
    params = {"distribution": TPD, "transformation": TStr}
    returns = TPD
    modifies = ("self",)

    def ensures(self, c):
        s0, s1 = c.old.self, c.new.self
        return [("composite", c.result.term == composite(c.arg("distribution").term, c.old.transformation)),
                ("only-the-transformation-attribute-changes", z3.And(D(s1) == D(s0), s1.math_lower_bound == s0.math_lower_bound, s1.math_upper_bound == s0.math_upper_bound,
                                                                     s1.num_lower_bound == s0.num_lower_bound, s1.num_upper_bound == s0.num_upper_bound))]


@register
class OTTruncate(Contract):
    targets = (OTD + ".__truncate_distribution",)
    prop = ("C19",)
    trusted = True
    description = ("assumed (comparisons with infinite support bounds are outside the real-number model): __truncate_distribution raises ValueError or returns "
                   "TruncatedDistribution(d, bounds, threshold) = c19_truncated(d, lower, upper, threshold) and only rewrites the attribute `transformation`")
    params = {"distribution": TPD, "lower_bound": OPTR, "upper_bound": OPTR, "threshold": TReal}
    returns = TPD
    modifies = ("self",)
    raises = {"ValueError": None}

    def ensures(self, c):
        s0, s1 = c.old.self, c.new.self
        return [("truncated", c.result.term == truncated(c.arg("distribution").term, c.arg("lower_bound").term, c.arg("upper_bound").term, c.old.threshold)),
                ("only-the-transformation-attribute-changes", z3.And(D(s1) == D(s0), s1.math_lower_bound == s0.math_lower_bound, s1.math_upper_bound == s0.math_upper_bound,
                                                                     s1.num_lower_bound == s0.num_lower_bound, s1.num_upper_bound == s0.num_upper_bound))]


@register
class OTCreate(_Wrap):
    """The wrapped object is the distribution made from (openturns, name, parameters), composed with the transformation when one is given, then
    truncated when a bound is given - in this order; the recorded range / support are those of THIS FINAL object (not of an intermediate one)."""

    targets = (OTD + "._create_distribution",)
    params = {"distribution_name": TStr, "parameters": ARGS, "transformation": TStr, "lower_bound": OPTR, "upper_bound": OPTR, "threshold": TReal}
    modifies = ("self",)
    raises = {"ImportError": None, "ValueError": None}

    def ensures(self, c):
        s = c.new.self
        d = D(s)
        d0 = z3.Const("d0!otc", TPD.sort())
        t, lo, up = c.old.transformation, c.arg("lower_bound").term, c.arg("upper_bound").term
        d1 = z3.If(str_nonempty_f(t), composite(d0, t), d0)
        d2 = z3.If(z3.And(OPTR.is_none(lo), OPTR.is_none(up)), d1, truncated(d1, lo, up, c.old.threshold))
        return [("made-from-name-and-parameters-then-transformed-then-truncated",
                 z3.Exists([d0], z3.And(_made_from(d0, "openturns", c.old.distribution_name), created_args(d0) == list_term(ARGS, c.old.parameters), d == d2)))] + _ot_bounds(s, d)


# ---------------------------------------------------------------------------- Layer B: sampling of a scalar wrapper (ghost record of the third-party call)
DIST_LOG, SIZE_LOG, VAL_LOG = z3.ArraySort(INT, TPD.sort()), z3.ArraySort(INT, INT), z3.ArraySort(INT, F1.sort())


def draws(c, new=True):
    g = c.new_ghost if new else c.old_ghost
    return g("c19_draw_n", INT), g("c19_draw_dist", DIST_LOG), g("c19_draw_size", SIZE_LOG), g("c19_draw_values", VAL_LOG)


def arr1(a):
    return F1.dt.mk(a.obj.shape[0], a.obj.elems)


def one_draw(c, d, n, values_term):
    """Exactly one third-party sampler call was made: on distribution d, for n values, and `values_term` is what it returned."""
    n0, dist0, size0, val0 = draws(c, new=False)
    n1, dist1, size1, val1 = draws(c)
    return [("one-third-party-draw", n1 == n0 + 1),
            ("drawn-from-the-wrapped-distribution", z3.And(dist1[n0] == d, size1[n0] == n)),
            ("result-is-what-was-drawn", val1[n0] == values_term),
            ("earlier-draws-kept", z3.And(dist1 == z3.Store(dist0, n0, dist1[n0]), size1 == z3.Store(size0, n0, size1[n0]), val1 == z3.Store(val0, n0, val1[n0])))]


class _Samples(_Wrap):
    """compute_samples(n) returns the n values of ONE call of the wrapped object's sampler (nothing else is drawn, nothing is modified)."""

    params = {"n_samples": TInt}
    returns = F1
    modifies = DRAW_GHOSTS
    raises = {"ValueError": lambda c: c.old.n_samples < 0}

    def ensures(self, c):
        return [("n-values", ln(c.result) == c.old.n_samples)] + one_draw(c, D(c.old.self), c.old.n_samples, arr1(c.result))


@register
class SPSamples(_Samples):
    targets = (SPD + ".compute_samples",)


@register
class OTSamples(_Samples):
    targets = (OTD + ".compute_samples",)


# ---------------------------------------------------------------------------- Layer B: joint distributions (component i <-> marginal i)
from pyvc.plug_c19 import MARG  # noqa: E402

MARGS = TList(MARG)
_JOINT = {"_BaseJointDistribution__dimension": TInt, "_BaseJointDistribution__marginals": MARGS, "math_lower_bound": F1, "math_upper_bound": F1,
          "num_lower_bound": F1, "num_upper_bound": F1, "transformation": TStr}
schema(BJ, _JOINT)
schema(SPJ, {**_JOINT, "distribution": MARGS})
schema(OTJ, {**_JOINT, "distribution": TVal})


def M(s):
    return s._BaseJointDistribution__marginals


def mfield(m, i, f):
    return MARG.accessor(f)(m.elems[i])


def mdist(m, i):
    return mfield(m, i, "distribution")


def per_marginal(r, m, f, tag):
    i = z3.Int("i!pm")
    return [(f"{tag}:one-component-per-marginal", ln(r) == m.n),
            (f"{tag}:component-i-from-marginal-i", forall_pat([i], z3.Implies(z3.And(0 <= i, i < m.n), el(r, i) == f(i)), el(r, i)))]


@register
class JointSetBounds(_Wrap):
    """The four bound vectors have one component per distribution, component i being the corresponding bound of distribution i."""

    targets = (BJ + "._set_bounds",)
    params = {"distributions": MARGS}
    modifies = ("self",)

    def ensures(self, c):
        s, m = c.new.self, c.old.distributions
        out = []
        for f in ("math_lower_bound", "math_upper_bound", "num_lower_bound", "num_upper_bound"):
            out += per_marginal(getattr(s, f), m, lambda i, f=f: mfield(m, i, f), f)
        return out + [("marginals-kept", z3.And(M(s).n == M(c.old.self).n, M(s).elems == M(c.old.self).elems))]


@register
class JointMean(_Wrap):
    """mean[i] is the mean marginal i reports."""

    targets = (BJ + ".mean",)
    returns = F1

    def ensures(self, c):
        m = M(c.old.self)
        return per_marginal(c.result, m, lambda i: mean_v(mdist(m, i)), "mean")


@register
class JointStd(_Wrap):
    """standard_deviation[i] is the standard deviation marginal i reports."""

    targets = (BJ + ".standard_deviation",)
    returns = F1

    def ensures(self, c):
        m = M(c.old.self)
        return per_marginal(c.result, m, lambda i: std_v(mdist(m, i)), "standard-deviation")


def _bounds_valid(s):
    """What _set_bounds establishes (called by every _create_distribution): one bound per marginal."""
    n = M(s).n
    return [("one-bound-per-marginal", z3.And(ln(s.math_lower_bound) == n, ln(s.math_upper_bound) == n, ln(s.num_lower_bound) == n, ln(s.num_upper_bound) == n))]


class _TwoColumns(_Wrap):
    returns = F2
    LO, HI = "num_lower_bound", "num_upper_bound"

    def requires(self, c):
        return _bounds_valid(c.old.self)

    def ensures(self, c):
        s, r = c.old.self, c.result
        lo, hi = getattr(s, self.LO), getattr(s, self.HI)
        i = z3.Int("i!tc")
        return [("one-row-per-component", z3.And(ln(r, 0) == M(s).n, ln(r, 1) == 2)),
                ("row-i-is-lower-then-upper-bound-of-component-i", forall_pat([i], z3.Implies(z3.And(0 <= i, i < M(s).n), z3.And(el(r, i, 0) == el(lo, i), el(r, i, 1) == el(hi, i))),
                                                                             el(r, i, 0)))]


@register
class JointRange(_TwoColumns):
    """range[i] = (numerical lower bound, numerical upper bound) of component i."""

    targets = (BJ + ".range",)


@register
class JointSupport(_TwoColumns):
    """support[i] = (mathematical lower bound, mathematical upper bound) of component i."""

    targets = (BJ + ".support",)
    LO, HI = "math_lower_bound", "math_upper_bound"


class _JointMap(_Wrap):
    """result[i] = F_i(value[i]) with F_i the (inverse) CDF of THE i-th marginal, for every i below min(len(value), number of marginals)."""

    params = {"value": F1}
    returns = F1
    FN = cdf_v

    def ensures(self, c):
        m, x, r = M(c.old.self), c.old.value, c.result
        i = z3.Int("i!jm")
        n = z3.If(ln(x) < m.n, ln(x), m.n)
        return [("length", ln(r) == n),
                ("component-i-through-marginal-i", forall_pat([i], z3.Implies(z3.And(0 <= i, i < n), el(r, i) == type(self).FN(mdist(m, i), el(x, i))), el(r, i))),
                ("fresh-result", z3.BoolVal(c.result.ref.id != c.old.value.ref.id))]


for _cls in (SPJ, OTJ):
    register(type(f"{_cls.rsplit('.', 1)[-1]}_compute_cdf", (_JointMap,), {"targets": (_cls + ".compute_cdf",), "FN": cdf_v, "__module__": __name__}))
    register(type(f"{_cls.rsplit('.', 1)[-1]}_compute_inverse_cdf", (_JointMap,), {"targets": (_cls + ".compute_inverse_cdf",), "FN": icdf_v, "__module__": __name__}))


# ============================================================================ Layer A: ParameterSpace
from contracts import c02_design_space as DS2  # noqa: E402
from pyvc.plug_c19 import JOINT, j_dist, j_n, jcdf_t, jicdf_t, joint_map_definition  # noqa: E402

DS = DS2.DS
PS = "gemseo.algos.parameter_space.ParameterSpace"
DC = "gemseo.utils.data_conversion."
NAMES = TList(TStr)
SIZES = TDict(TStr, TInt)
BLOCKS = TDict(TStr, F1)
DISTS = TDict(TStr, JOINT)
StrS = TStr.sort()

schema(PS, {**C.class_schema(DS),
            "uncertain_variables": NAMES,
            "distributions": DISTS,
            "distribution": TVal,
            "_ParameterSpace__uncertain_variables_to_definitions": TDict(TStr, TVal),
            "_ParameterSpace__distribution_family_id": TStr})

_PS_FIELDS = dict(C.class_schema(PS))
NUM_CACHE_FIELDS = ("_DesignSpace__norm_data_is_computed", "_DesignSpace__lower_bounds_array", "_DesignSpace__upper_bounds_array", "_norm_factor",
                    "_norm_factor_inv", "_DesignSpace__norm_inds", "_DesignSpace__integer_components", "_DesignSpace__no_integer", "_DesignSpace__common_dtype")
FLAG = "_DesignSpace__normalize_integer_variables"
# the parameter space at the transformation level: the cached normalisation data of the design space (refreshed by DesignSpace.normalize_vect /
# unnormalize_vect, C02) are NOT part of the state modelled at this level
PST = PS + "#tr"
schema(PST, {f: t for f, t in _PS_FIELDS.items() if f not in NUM_CACHE_FIELDS})

# uninterpreted functions of this layer
#   block of variable `name` in a vector laid out along `names` with the sizes `sizes` (split_array_to_dict_of_arrays)
#   (the sizes are those of the ghost layout c19_variable_size: name -> size, DEFINED per verified function as the sizes of the variables of the entry state)
vsize = z3.Function("c19_variable_size", StrS, INT)
blk = z3.Function("c19_block", F1.sort(), NAMES.sort(), StrS, F1.sort())
#   concatenation of the blocks `vals[name]`, name running over `names` (concatenate_dict_of_arrays_to_array)
cat = z3.Function("c19_concatenate", z3.ArraySort(StrS, F1.sort()), NAMES.sort(), F1.sort())
#   DesignSpace.normalize_vect / unnormalize_vect (the affine maps of C02) as functions of the design-space state and the vector
#   (arguments: integer-normalisation flag, variables, normalisation policies, minus_lb, vector)
ds_n = z3.Function("c19_design_space_normalize", z3.BoolSort(), DS2.VARS.sort(), DS2.NORM.sort(), z3.BoolSort(), F1.sort(), F1.sort())
ds_u = z3.Function("c19_design_space_unnormalize", z3.BoolSort(), DS2.VARS.sort(), DS2.NORM.sort(), z3.BoolSort(), F1.sort(), F1.sort())


def bv(b):
    return z3.BoolVal(b) if isinstance(b, bool) else b


def ds_map(fn, s, minus_lb, x_term):
    return fn(getattr(s, FLAG), vars_term(s), norm_term(s), bv(minus_lb), x_term)


def UV(s):
    return s.uncertain_variables


def DD(s):
    return s.distributions


def in_list(lst, x):
    """`x in lst` exactly as the list model states it."""
    i = z3.Int("i!in")
    return z3.Exists([i], z3.And(0 <= i, i < lst.n, lst.elems[i] == x))


def vars_term(s):
    v = DS2.V(s)
    return DS2.VARS.dt.mk(v.member, v.vals, v.n, v.keys, v.pos)


def norm_term(s):
    n = DS2.N(s)
    return DS2.NORM.dt.mk(n.member, n.vals, n.n, n.keys, n.pos)


def names_of(s):
    """The variable names in design-space order, as a list term."""
    v = DS2.V(s)
    return NAMES.dt.mk(v.n, v.keys)


def layout_definition(s):
    """Definition of the ghost layout: c19_variable_size(name) = size of the variable `name` of the (entry) state."""
    v = DS2.V(s)
    k = z3.Const("k!sz", StrS)
    return [("def:c19_variable_size", z3.ForAll([k], z3.Implies(v.has(k), vsize(k) == DS2.size(v.vals[k])), patterns=[vsize(k)]))]


def fa(vs, body, *pats):
    """ForAll with explicit triggers when z3 accepts them (a select on a lambda term - e.g. a list after remove() - is not a valid trigger)."""
    from pyvc.values import _pattern_ok

    def ok(p):
        return all(_pattern_ok(p.arg(i)) for i in range(p.num_args())) if z3.is_app(p) and p.decl().name() == "pattern" else _pattern_ok(p)

    try:
        return z3.ForAll(vs, body, patterns=list(pats)) if pats and all(ok(p) for p in pats) else z3.ForAll(vs, body)
    except z3.Z3Exception:
        return z3.ForAll(vs, body)


def ps_wf(s):
    """Representation invariant of a parameter space (established by add_random_vector, kept by remove_variable / rename_variable): every
    uncertain variable is a design variable with a joint distribution of its size; no name is listed twice."""
    u, d, v = UV(s), DD(s), DS2.V(s)
    i, j = z3.Int("i!pw"), z3.Int("j!pw")
    return [("uncertain-variables-are-variables-with-a-distribution",
             forall_pat([i], z3.Implies(z3.And(0 <= i, i < u.n), z3.And(v.has(u.elems[i]), d.has(u.elems[i]))), u.elems[i])),
            ("one-marginal-per-component", forall_pat([i], z3.Implies(z3.And(0 <= i, i < u.n), j_n(d.get(u.elems[i])) == DS2.size(v.get(u.elems[i]))), u.elems[i])),
            ("no-uncertain-variable-listed-twice", fa([i, j], z3.Implies(z3.And(0 <= i, i < j, j < u.n), u.elems[i] != u.elems[j]), z3.MultiPattern(u.elems[i], u.elems[j])))]


_PS_OWN = ("kept:uncertain_variables", "kept:distributions", "kept:distribution", "kept:family", "kept:definitions")


def ps_kept(s0, s1, *except_fields):
    """The whole parameter space is untouched, except the listed fields."""
    out = DS2._only_field_changed(s0, s1, *except_fields, caches_too=False)
    k = z3.Const("k!pk", StrS)
    i = z3.Int("i!pk")
    if "uncertain_variables" not in except_fields:
        out.append(("kept:uncertain_variables", z3.And(UV(s1).n == UV(s0).n, z3.ForAll([i], z3.Implies(z3.And(0 <= i, i < UV(s0).n), UV(s1).elems[i] == UV(s0).elems[i])))))
    if "distributions" not in except_fields:
        out.append(("kept:distributions", z3.And(DD(s1).n == DD(s0).n, z3.ForAll([k], z3.And(DD(s1).has(k) == DD(s0).has(k), z3.Implies(DD(s0).has(k), DD(s1).get(k) == DD(s0).get(k)))))))
    if "distribution" not in except_fields:
        out.append(("kept:distribution", s1.distribution == s0.distribution))
    fam, defs = "_ParameterSpace__distribution_family_id", "_ParameterSpace__uncertain_variables_to_definitions"
    if fam not in except_fields:
        out.append(("kept:family", getattr(s1, fam) == getattr(s0, fam)))
    if defs not in except_fields:
        e0, e1 = getattr(s0, defs), getattr(s1, defs)
        out.append(("kept:definitions", z3.And(e1.n == e0.n, z3.ForAll([k], z3.And(e1.has(k) == e0.has(k), z3.Implies(e0.has(k), e1.get(k) == e0.get(k)))))))
    return out


# ---------------------------------------------------------------------------- membership queries
@register
class IsUncertain(Contract):
    """is_uncertain(v) <=> v is listed in uncertain_variables."""

    targets = (PS + ".is_uncertain",)
    prop = ("C19",)
    c19 = True
    params = {"variable": TStr}
    returns = TBool

    def ensures(self, c):
        return [("listed", c.result == in_list(UV(c.old.self), c.old.variable))]


@register
class IsDeterministic(Contract):
    """is_deterministic(v) <=> v is a variable of the space that is not listed in uncertain_variables."""

    targets = (PS + ".is_deterministic",)
    prop = ("C19",)
    c19 = True
    params = {"variable": TStr}
    returns = TBool

    def ensures(self, c):
        s = c.old.self
        return [("variable-and-not-uncertain", c.result == z3.And(DS2.V(s).has(c.old.variable), z3.Not(in_list(UV(s), c.old.variable))))]


class _Report(Contract):
    prop = ("C19",)
    c19 = True
    numpy = "precise"
    params = {"variable": TStr}
    returns = F2
    raises = {"KeyError": lambda c: z3.Not(DD(c.old.self).has(c.old.variable))}
    LO, HI = "num_lower_bound", "num_upper_bound"

    def ensures(self, c):
        j = DD(c.old.self).get(c.old.variable)
        lo, hi = F1.els(JOINT.accessor(self.LO)(j)), F1.els(JOINT.accessor(self.HI)(j))
        r = c.result
        i = z3.Int("i!rp")
        return [("one-row-per-component", z3.And(ln(r, 0) == j_n(j), ln(r, 1) == 2)),
                ("row-i-is-what-the-distribution-of-the-variable-reports", forall_pat([i], z3.Implies(z3.And(0 <= i, i < j_n(j)), z3.And(el(r, i, 0) == lo[i], el(r, i, 1) == hi[i])),
                                                                                      el(r, i, 0)))]


@register
class GetRange(_Report):
    """get_range(v)[i] = the numerical range the joint distribution OF v reports for component i."""

    targets = (PS + ".get_range",)


@register
class GetSupport(_Report):
    """get_support(v)[i] = the mathematical support the joint distribution OF v reports for component i."""

    targets = (PS + ".get_support",)
    LO, HI = "math_lower_bound", "math_upper_bound"


# ---------------------------------------------------------------------------- evaluate_cdf
def _bad_entry(s, obj, k):
    """Entry k of a dictionary of probabilities is rejected: an uncertain variable with the wrong number of components or a component outside [0, 1]."""
    i = z3.Int("i!be")
    b = obj.vals[k]
    e = F1.els(b)[i]
    return z3.And(in_list(UV(s), k), z3.Or(F1.dim(b) != DS2.size(DS2.V(s).vals[k]), z3.Exists([i], z3.And(0 <= i, i < F1.dim(b), z3.Or(e > 1, e < 0)))))


def _some_bad_entry(s, obj):
    k = z3.Const("k!sb", StrS)
    return z3.Exists([k], z3.And(obj.member[k], _bad_entry(s, obj, k)))


@register
class CheckDictOfArray(Contract):
    """ValueError iff some entry of an uncertain variable has not the size of the variable or has a component outside [0, 1]; nothing is modified."""

    targets = (PS + ".__check_dict_of_array",)
    prop = ("C19",)
    c19 = True
    numpy = "precise"
    params = {"obj": BLOCKS}
    raises = {"ValueError": lambda c: _some_bad_entry(c.old.self, c.old.obj)}
    loops = {0: LoopSpec(anchor="obj.items()", local_types={"variable": TStr, "value": F1},
                         inv=lambda c, k: [("entries-so-far-accepted", forall_pat([z3.Int("i!cd")], z3.Implies(z3.And(0 <= z3.Int("i!cd"), z3.Int("i!cd") < k),
                                                                                                            z3.Not(_bad_entry(c.old.self, c.old.obj, c.seq.keys[z3.Int("i!cd")]))),
                                                                                  c.seq.keys[z3.Int("i!cd")]))])}

    def requires(self, c):
        return ps_wf(c.old.self)[:1]


def _fn(inverse):
    inv = z3.BoolVal(inverse) if isinstance(inverse, bool) else inverse
    return lambda j, x: z3.If(inv, jicdf_t(j, x), jcdf_t(j, x))


def _ecdf_inv(c, k):
    s, val = c.old.self, c.old.value
    u, d = UV(s), DD(s)
    vals = c.locals["values"]
    x, i = z3.Const("x!ec", StrS), z3.Int("i!ec")
    f = _fn(c.old.inverse)
    return [("entries", z3.ForAll([x], vals.has(x) == z3.Exists([i], z3.And(0 <= i, i < k, u.elems[i] == x)))),
            ("inputs-present", forall_pat([i], z3.Implies(z3.And(0 <= i, i < k), val.has(u.elems[i])), u.elems[i])),
            ("values", forall_pat([i], z3.Implies(z3.And(0 <= i, i < k), vals.get(u.elems[i]) == f(d.get(u.elems[i]), val.get(u.elems[i]))), u.elems[i]))]


@register
class EvaluateCdf(Contract):
    """The result has exactly one entry per uncertain variable: the (inverse, when `inverse`) joint CDF of THE distribution of this variable applied to
    the entry of this variable - hence component i through marginal i (contracts of compute_cdf / compute_inverse_cdf).  With `inverse`, entries of
    uncertain variables of the wrong size or outside [0, 1] are rejected.  Nothing is modified."""

    targets = (PS + ".evaluate_cdf",)
    prop = ("C19",)
    c19 = True
    numpy = "precise"
    params = {"value": BLOCKS, "inverse": TBool}
    returns = BLOCKS
    loops = {0: LoopSpec(anchor="self.uncertain_variables", inv=_ecdf_inv, modifies=("values",), local_types={"values": BLOCKS, "name": TStr})}

    @property
    def raises(self):
        def missing(c):
            i = z3.Int("i!em")
            u = UV(c.old.self)
            return z3.Exists([i], z3.And(0 <= i, i < u.n, z3.Not(c.old.value.has(u.elems[i]))))

        def rejected(c):
            inv = c.old.inverse
            return z3.And(z3.BoolVal(inv) if isinstance(inv, bool) else inv, _some_bad_entry(c.old.self, c.old.value))

        return {"KeyError": missing, "ValueError": rejected}

    def requires(self, c):
        return ps_wf(c.old.self)

    def ensures(self, c):
        s, val, r = c.old.self, c.old.value, c.result
        u, d = UV(s), DD(s)
        x, i = z3.Const("x!ee", StrS), z3.Int("i!ee")
        f = _fn(c.old.inverse)
        return [("exactly-the-uncertain-variables", z3.ForAll([x], r.has(x) == in_list(u, x))),
                ("each-through-the-distribution-of-its-own-variable", forall_pat([i], z3.Implies(z3.And(0 <= i, i < u.n), r.get(u.elems[i]) == f(d.get(u.elems[i]), val.get(u.elems[i]))),
                                                                                 u.elems[i]))]


# ---------------------------------------------------------------------------- assumed callees of the transformation (conversion utilities, design-space maps)
def _names_arg(c):
    """The `*names` argument of split_array_to_dict_of_arrays / `names` of concatenate_dict_of_arrays_to_array: the keys of a dictionary, in order."""
    v = c.arg("names")
    v = v[0] if isinstance(v, tuple) and len(v) == 1 else v
    ref = getattr(v, "ref", v)  # a keys() view or the dictionary itself
    o = c._old_heap[ref.id]
    if hasattr(o, "elems") and not hasattr(o, "member"):
        # a list of names: same interface (n, keys = the elements, membership = occurrence)
        class _L:  # noqa: N801
            n, keys = o.n, o.elems
            k = z3.Const("k!nl", StrS)
            i = z3.Int("i!nl")
            member = z3.Lambda([k], z3.Exists([i], z3.And(0 <= i, i < o.n, o.elems[i] == k)))
        return _L
    return o


@register
class SplitArrayC19(Contract):
    targets = (DC + "split_array_to_dict_of_arrays",)
    variant = "c19"
    prop = ("C19",)
    numpy = "precise"
    trusted = True
    description = ("assumed (conversion utility, C02 domain): split_array_to_dict_of_arrays(x, sizes, names) maps every name of `names` - and nothing else - to the "
                   "block c19_block(x, names, name) of its components (offset = sum of the sizes of the names before it), of length sizes[name]; the sizes are "
                   "those of the ghost layout c19_variable_size (precondition); no side effect")
    params = {"array": F1, "names_to_sizes": SIZES}
    returns = BLOCKS

    def requires(self, c):
        nm, sz = _names_arg(c), c.old.names_to_sizes
        x = z3.Const("x!sq", StrS)
        return [("sizes-are-the-layout", fa([x], z3.Implies(nm.member[x], z3.And(sz.has(x), sz.get(x) == vsize(x))), nm.member[x]))]

    def ensures(self, c):
        r, nm = c.result, _names_arg(c)
        x = z3.Const("x!sp", StrS)
        nt = NAMES.dt.mk(nm.n, nm.keys)
        b = blk(arr1(c.old.array), nt, x)
        return [("exactly-the-names", z3.ForAll([x], r.has(x) == nm.member[x])),
                ("blocks", forall_pat([x], z3.Implies(nm.member[x], z3.And(r.get(x) == b, F1.dim(b) == vsize(x))), r.get(x), b))]


@register
class ConcatenateC19(Contract):
    targets = (DC + "concatenate_dict_of_arrays_to_array",)
    variant = "c19"
    prop = ("C19",)
    numpy = "precise"
    trusted = True
    description = ("assumed (conversion utility, C02 domain): concatenate_dict_of_arrays_to_array(d, names) = c19_concatenate(d, names), the concatenation of the "
                   "blocks d[name] for name running over `names` in order (KeyError when a name is missing); no side effect")
    params = {"dict_of_arrays": BLOCKS}
    returns = F1

    @property
    def raises(self):
        def missing(c):
            nm, d = _names_arg(c), c.old.dict_of_arrays
            x = z3.Const("x!cm", StrS)
            return z3.Exists([x], z3.And(nm.member[x], z3.Not(d.has(x))))

        return {"KeyError": missing}

    def ensures(self, c):
        nm, d = _names_arg(c), c.old.dict_of_arrays
        return [("concatenation", arr1(c.result) == cat(d.vals, NAMES.dt.mk(nm.n, nm.keys)))]


class _DsMap(Contract):
    prop = ("C19",)
    variant = "c19"
    numpy = "precise"
    self_schema = PST
    self_class = PS
    trusted = True
    returns = F1
    FN = ds_n

    def requires(self, c):
        return [("out-is-none", c.arg("out") is None)]

    def ensures(self, c):
        s0, s1 = c.old.self, c.new.self
        x, r = c.old.x_vect, c.result
        return [("image", arr1(r) == ds_map(type(self).FN, s0, c.old.minus_lb, arr1(x))),
                ("length", ln(r) == ln(x)),
                ("fresh-result", z3.BoolVal(c.result.ref.id != c.old.x_vect.ref.id))]


@register
class DsNormalizeC19(_DsMap):
    targets = (DS + ".normalize_vect",)
    params = {"x_vect": F1, "minus_lb": TBool}
    description = ("assumed here, PROVED per component in C02 (contracts/c02_normalization.py NormalizeVect + BijectionLemmas, contracts/c02_more.py link level): "
                   "DesignSpace.normalize_vect(x) is a new vector of the length of x, the function c19_design_space_normalize of the variables (order, sizes, types, "
                   "bounds), the normalisation policies, the integer-normalisation flag, minus_lb and x; it only refreshes the cached normalisation data (not part of the state modelled here)")


@register
class DsUnnormalizeC19(_DsMap):
    targets = (DS + ".unnormalize_vect",)
    params = {"x_vect": F1, "minus_lb": TBool, "no_check": TBool}
    FN = ds_u
    raises = {"ValueError": None}
    description = ("assumed here, PROVED per component in C02 (UnnormalizeVectNoInteger + BijectionLemmas; integer rounding: C14 RoundVectBatch): "
                   "DesignSpace.unnormalize_vect(x, no_check) is a new vector of the length of x, the function c19_design_space_unnormalize of the design-space state, "
                   "minus_lb and x, or a ValueError (components outside [0, 1] when checked); it only refreshes the cached normalisation data (not part of the state modelled here)")


CALLEES = {DC + "split_array_to_dict_of_arrays": "c19", DC + "concatenate_dict_of_arrays_to_array": "c19", DS + ".normalize_vect": "c19", DS + ".unnormalize_vect": "c19"}


# ---------------------------------------------------------------------------- the transformation
def _blocks_spec(c, R, f_joint, f_ds, x, minus_lb=True):
    """R[k], for every variable k: the joint map of THE distribution of k applied to the block of k when k is uncertain, the block of k of the
    design-space map of the whole vector otherwise."""
    s = c.old.self
    v, u, d = DS2.V(s), UV(s), DD(s)
    k = z3.Const("k!bs", StrS)
    names = names_of(s)
    xb = blk(arr1(x), names, k)
    gb = blk(ds_map(f_ds, s, minus_lb, arr1(x)), names, k)
    return [("uncertain-blocks-through-the-distribution-of-their-own-variable",
             z3.ForAll([k], z3.Implies(z3.And(v.has(k), v.pos[k] >= 0, in_list(u, k)), R[k] == f_joint(d.get(k), xb)), patterns=[R[k]])),
            ("deterministic-blocks-on-the-design-space-map",
             z3.ForAll([k], z3.Implies(z3.And(v.has(k), v.pos[k] >= 0, z3.Not(in_list(u, k))), R[k] == gb), patterns=[R[k]]))]


def transformation_post(c, result, x, f_joint, f_ds, minus_lb=True):
    """result = concatenation, IN THE VARIABLE ORDER, of blocks R[k] as specified by _blocks_spec (R is existentially quantified: callers and lemmas get it
    as a Skolem constant; the verified function exhibits its local dictionary)."""
    s = c.old.self
    R = z3.Const("R!tp", z3.ArraySort(StrS, F1.sort()))
    names = names_of(s)
    body = z3.And(arr1(result) == cat(R, names), *[f for _, f in _blocks_spec(c, R, f_joint, f_ds, x, minus_lb)])
    return z3.Exists([R], body, patterns=[cat(R, names)])


def _tr_inv(f_joint, f_ds, xname, dname, gname):
    def inv(c, k):
        s = c.old.self
        v, u, d = DS2.V(s), UV(s), DD(s)
        cur, geom, miss = c.locals[dname], c.locals[gname], c.locals["missing_names"]
        x = c.arg(xname)
        xv = C.View(c._old_heap, x, c.st)
        q, i = z3.Const("q!ti", StrS), z3.Int("i!ti")
        names = names_of(s)
        xb = blk(arr1(xv), names, q)
        return [("members", z3.ForAll([q], cur.has(q) == z3.Or(in_list(u, q), z3.Exists([i], z3.And(0 <= i, i < k, miss.elems[i] == q))))),
                ("uncertain-blocks-kept", z3.ForAll([q], z3.Implies(z3.And(v.has(q), in_list(u, q)), cur.get(q) == f_joint(d.get(q), xb)), patterns=[cur.get(q)])),
                ("missing-blocks-copied", forall_pat([i], z3.Implies(z3.And(0 <= i, i < k), cur.get(miss.elems[i]) == geom.get(miss.elems[i])), miss.elems[i]))]

    return inv


class _Transformation(Contract):
    prop = ("C19",)
    c19 = True
    numpy = "precise"
    callee_variants = CALLEES
    self_schema = PST
    returns = F1
    F_JOINT, F_DS = jcdf_t, ds_n

    def requires(self, c):
        s = c.old.self
        return DS2.wf(s) + ps_wf(s)

    def axioms(self, c):
        return DS2.derived_wf(c.old.self) + layout_definition(c.old.self)

    def ensures(self, c):
        s0, s1 = c.old.self, c.new.self
        x = c.old.x_vect if "x_vect" in self.params else c.old.vector
        mlb = c.old.minus_lb if "minus_lb" in self.params else True
        return [("transformation", transformation_post(c, c.result, x, type(self).F_JOINT, type(self).F_DS, mlb))]


@register
class NormalizeVectBlocks(_Transformation):
    """__normalize_vect(x, minus_lb) = the concatenation, in the variable order, of: CDF of THE joint distribution of v applied to the block of v, for every
    uncertain variable v; the block of v of DesignSpace.normalize_vect(x, minus_lb) (the affine design-space map) for every deterministic variable v."""

    targets = (PS + ".__normalize_vect",)
    params = {"x_vect": F1, "minus_lb": TBool}
    loops = {0: LoopSpec(anchor="missing_names", inv=_tr_inv(jcdf_t, ds_n, "x_vect", "x_n", "x_n_geom"), modifies=("x_n",), local_types={"name": TStr})}


@register
class UnnormalizeVectBlocks(_Transformation):
    """__unnormalize_vect(u) = the concatenation, in the variable order, of: INVERSE CDF of THE joint distribution of v applied to the block of v, for every
    uncertain variable v; the block of v of DesignSpace.unnormalize_vect(u, minus_lb, no_check) (the affine design-space map) for every deterministic variable v.
    ValueError: an uncertain block with a component outside [0, 1], or the design-space check."""

    targets = (PS + ".__unnormalize_vect",)
    params = {"x_vect": F1, "minus_lb": TBool, "no_check": TBool}
    F_JOINT, F_DS = jicdf_t, ds_u
    loops = {0: LoopSpec(anchor="missing_names", inv=_tr_inv(jicdf_t, ds_u, "x_vect", "x_u", "x_u_geom"), modifies=("x_u",), local_types={"name": TStr})}
    raises = {"ValueError": None}


class _Public(_Transformation):
    """use_dist: the transformation above; otherwise the design-space map - in both cases WITH THE GIVEN minus_lb for the deterministic components
    (docstring: "For the components of the deterministic variables, use the approach defined in DesignSpace.[un]normalize_vect with `minus_lb`";
    repaired in /repo bc82ce9: minus_lb used to be dropped, which made normalize_grad / unnormalize_grad of a parameter space wrong)."""

    def ensures(self, c):
        s, x, r = c.old.self, c.old.x_vect, c.result
        ud, mlb = bv(c.old.use_dist), c.old.minus_lb
        F_J, F_D = type(self).F_JOINT, type(self).F_DS
        return [("with-distributions:transformation", z3.Implies(ud, transformation_post(c, r, x, F_J, F_D, mlb))),
                ("without-distributions:the-design-space-map", z3.Implies(z3.Not(ud), arr1(r) == ds_map(F_D, s, mlb, arr1(x))))]


@register
class NormalizeVectPublic(_Public):
    targets = (PS + ".normalize_vect",)
    params = {"x_vect": F1, "minus_lb": TBool, "use_dist": TBool}


@register
class UnnormalizeVectPublic(_Public):
    targets = (PS + ".unnormalize_vect",)
    params = {"x_vect": F1, "minus_lb": TBool, "no_check": TBool, "use_dist": TBool}
    F_JOINT, F_DS = jicdf_t, ds_u
    raises = {"ValueError": None}


@register
class TransformVect(_Transformation):
    """transform_vect(x): uncertain blocks through the CDF of their own joint distribution, deterministic blocks on DesignSpace.normalize_vect, variable order."""

    targets = (PS + ".transform_vect",)
    params = {"vector": F1}


@register
class UntransformVect(_Transformation):
    """untransform_vect(u): uncertain blocks through the inverse CDF of their own joint distribution, deterministic blocks on DesignSpace.unnormalize_vect, variable order."""

    targets = (PS + ".untransform_vect",)
    params = {"vector": F1, "no_check": TBool}
    F_JOINT, F_DS = jicdf_t, ds_u
    raises = {"ValueError": None}


# ---------------------------------------------------------------------------- lemmas: round trips over the contracts + the ASSUMED third-party inverse axioms
in_support = z3.Function("c19_in_support", TPD.sort(), REAL, z3.BoolSort())  # x lies in the support of the wrapped distribution
comp_n = z3.Function("c19_design_space_normalize_component", StrS, INT, REAL, REAL)  # component i of variable k under DesignSpace.normalize_vect
comp_u = z3.Function("c19_design_space_unnormalize_component", StrS, INT, REAL, REAL)


def marginal_axioms():
    """ASSUMED about every third-party marginal d (NOT provable here: special functions of SciPy / OpenTURNS in floating point)."""
    d, t, t2 = z3.Const("d!ma", TPD.sort()), z3.Real("t!ma"), z3.Real("t2!ma")
    return [("icdf-inverts-cdf-on-the-support", z3.ForAll([d, t], z3.Implies(in_support(d, t), icdf_v(d, cdf_v(d, t)) == t), patterns=[cdf_v(d, t)])),
            ("cdf-inverts-icdf-on-the-open-unit-interval", z3.ForAll([d, t], z3.Implies(z3.And(0 < t, t < 1), cdf_v(d, icdf_v(d, t)) == t), patterns=[icdf_v(d, t)])),
            ("cdf-is-a-probability", z3.ForAll([d, t], z3.And(0 <= cdf_v(d, t), cdf_v(d, t) <= 1), patterns=[cdf_v(d, t)])),
            ("cdf-is-monotone", z3.ForAll([d, t, t2], z3.Implies(t <= t2, cdf_v(d, t) <= cdf_v(d, t2)), patterns=[z3.MultiPattern(cdf_v(d, t), cdf_v(d, t2))])),
            ("icdf-is-monotone", z3.ForAll([d, t, t2], z3.Implies(z3.And(0 < t, t <= t2, t2 < 1), icdf_v(d, t) <= icdf_v(d, t2)), patterns=[z3.MultiPattern(icdf_v(d, t), icdf_v(d, t2))])),
            ("icdf-values-lie-in-the-support", z3.ForAll([d, t], z3.Implies(z3.And(0 < t, t < 1), in_support(d, icdf_v(d, t))), patterns=[icdf_v(d, t)]))]


def joint_definitions():
    """The verified contracts of compute_cdf / compute_inverse_cdf of the joint distributions, for every joint distribution and vector."""
    j, b = z3.Const("j!jq", JOINT.sort()), z3.Const("b!jq", F1.sort())
    out = []
    for tag, ft, fv in (("cdf", jcdf_t, cdf_v), ("icdf", jicdf_t, icdf_v)):
        dim_f, el_f = joint_map_definition(ft, fv, j, b)
        out.append((f"joint-{tag}:length", z3.ForAll([j, b], dim_f, patterns=[ft(j, b)])))
        out.append((f"joint-{tag}:component-i-through-marginal-i", z3.ForAll([j, b], el_f, patterns=[ft(j, b)])))
    return out


def _and(pairs):
    return z3.And(*[f for _, f in pairs])


@register
class JointRoundTripLemmas(Contract):
    """Consequences of the joint compute_cdf / compute_inverse_cdf contracts and of the ASSUMED marginal axioms, for a joint distribution J with n marginals
    and a vector b of n components: inverse_cdf(cdf(b)) = b component-wise when every b[i] lies in the support of marginal i; cdf(inverse_cdf(u)) = u
    component-wise when every u[i] lies in (0, 1); cdf(b) lies in [0, 1]^n (what __check_dict_of_array demands of the argument of the inverse)."""

    targets = ()
    prop = ("C19",)
    lemma = True

    def lemmas(self):
        J, b = z3.Const("J", JOINT.sort()), z3.Const("b", F1.sort())
        i, q = z3.Int("i"), z3.Int("q")
        n = j_n(J)
        AX = z3.And(_and(marginal_axioms()), _and(joint_definitions()), F1.dim(b) == n, 0 <= i, i < n)
        sup = z3.ForAll([q], z3.Implies(z3.And(0 <= q, q < n), in_support(j_dist(J, q), F1.els(b)[q])), patterns=[F1.els(b)[q]])
        unit = z3.ForAll([q], z3.Implies(z3.And(0 <= q, q < n), z3.And(0 < F1.els(b)[q], F1.els(b)[q] < 1)), patterns=[F1.els(b)[q]])
        y, u = jcdf_t(J, b), jicdf_t(J, b)
        return [("inverse-undoes-cdf:length", z3.Implies(AX, F1.dim(jicdf_t(J, y)) == n)),
                ("inverse-undoes-cdf:component", z3.Implies(z3.And(AX, sup), F1.els(jicdf_t(J, y))[i] == F1.els(b)[i])),
                ("cdf-undoes-inverse:length", z3.Implies(AX, F1.dim(jcdf_t(J, u)) == n)),
                ("cdf-undoes-inverse:component", z3.Implies(z3.And(AX, unit), F1.els(jcdf_t(J, u))[i] == F1.els(b)[i])),
                ("cdf-values-are-probabilities", z3.Implies(AX, z3.And(0 <= F1.els(y)[i], F1.els(y)[i] <= 1))),
                ("inverse-values-lie-in-the-support-of-their-marginal", z3.Implies(z3.And(AX, unit), in_support(j_dist(J, i), F1.els(u)[i])))]


@register
class ParameterSpaceRoundTripLemma(Contract):
    """untransform_vect(transform_vect(x)) recovers every component of every variable block of x, from:
      T, U   the postconditions of transform_vect / untransform_vect (R, R2: the existentially quantified block dictionaries, as Skolem constants);
      WF     the parameter-space invariant (one marginal per component of an uncertain variable);
      JD     the verified contracts of the joint compute_cdf / compute_inverse_cdf;            M   the ASSUMED marginal axioms;
      SUP    every uncertain component of x lies in the support of its marginal;
      S1,A1  ASSUMED block algebra of the conversion utilities: block k of a vector of the dimension of the space has size(k) components, and
             splitting the concatenation of blocks of the right sizes gives the blocks back;
      DC     ASSUMED here, proved in C02 (BijectionLemmas, for lb < ub and for unbounded components; no integer rounding): the design-space maps act
             component-wise on each block and unnormalize inverts normalize."""

    targets = ()
    prop = ("C19",)
    lemma = True

    def lemmas(self):
        N = z3.Const("N", NAMES.sort())
        mem, unc = z3.Const("mem", z3.ArraySort(StrS, z3.BoolSort())), z3.Const("unc", z3.ArraySort(StrS, z3.BoolSort()))
        Jk = z3.Const("Jk", z3.ArraySort(StrS, JOINT.sort()))
        R, R2 = z3.Const("R", z3.ArraySort(StrS, F1.sort())), z3.Const("R2", z3.ArraySort(StrS, F1.sort()))
        x = z3.Const("x", F1.sort())
        Dn, Du = z3.Function("Dn", F1.sort(), F1.sort()), z3.Function("Du", F1.sort(), F1.sort())  # the design-space maps of the (fixed) state
        k, k0, a = z3.Const("k", StrS), z3.Const("k0", StrS), z3.Const("a", F1.sort())
        i, i0, t = z3.Int("i"), z3.Int("i0"), z3.Real("t")
        y, z = cat(R, N), cat(R2, N)
        T = z3.And(z3.ForAll([k], z3.Implies(z3.And(mem[k], unc[k]), R[k] == jcdf_t(Jk[k], blk(x, N, k))), patterns=[R[k]]),
                   z3.ForAll([k], z3.Implies(z3.And(mem[k], z3.Not(unc[k])), R[k] == blk(Dn(x), N, k)), patterns=[R[k]]))
        Uu = z3.And(z3.ForAll([k], z3.Implies(z3.And(mem[k], unc[k]), R2[k] == jicdf_t(Jk[k], blk(y, N, k))), patterns=[R2[k]]),
                    z3.ForAll([k], z3.Implies(z3.And(mem[k], z3.Not(unc[k])), R2[k] == blk(Du(y), N, k)), patterns=[R2[k]]))
        WF = z3.ForAll([k], z3.Implies(z3.And(mem[k], unc[k]), j_n(Jk[k]) == vsize(k)), patterns=[Jk[k]])
        S1 = z3.ForAll([a, k], z3.Implies(mem[k], z3.And(F1.dim(blk(a, N, k)) == vsize(k), vsize(k) >= 0)), patterns=[blk(a, N, k)])
        sized = lambda B: z3.ForAll([k], z3.Implies(mem[k], F1.dim(B[k]) == vsize(k)), patterns=[B[k]])  # noqa: E731
        A1 = lambda B: z3.Implies(sized(B), z3.ForAll([k], z3.Implies(mem[k], blk(cat(B, N), N, k) == B[k]), patterns=[blk(cat(B, N), N, k)]))  # noqa: E731
        DC = z3.And(z3.ForAll([a, k, i], z3.Implies(z3.And(mem[k], z3.Not(unc[k]), 0 <= i, i < vsize(k)),
                                                    F1.els(blk(Dn(a), N, k))[i] == comp_n(k, i, F1.els(blk(a, N, k))[i])), patterns=[F1.els(blk(Dn(a), N, k))[i]]),
                    z3.ForAll([a, k, i], z3.Implies(z3.And(mem[k], z3.Not(unc[k]), 0 <= i, i < vsize(k)),
                                                    F1.els(blk(Du(a), N, k))[i] == comp_u(k, i, F1.els(blk(a, N, k))[i])), patterns=[F1.els(blk(Du(a), N, k))[i]]),
                    z3.ForAll([k, i, t], comp_u(k, i, comp_n(k, i, t)) == t, patterns=[comp_n(k, i, t)]))
        SUP = z3.ForAll([k, i], z3.Implies(z3.And(mem[k], unc[k], 0 <= i, i < vsize(k)), in_support(j_dist(Jk[k], i), F1.els(blk(x, N, k))[i])),
                        patterns=[F1.els(blk(x, N, k))[i]])
        JD, M_ = _and(joint_definitions()), _and(marginal_axioms())
        base = z3.And(T, WF, S1, JD)
        at = z3.And(mem[k0], 0 <= i0, i0 < vsize(k0))
        return [
            # step 1: the blocks of transform_vect(x) have the sizes of the variables, hence splitting it gives them back
            ("blocks-of-the-transformed-vector-have-the-variable-sizes", z3.Implies(z3.And(base, mem[k0]), F1.dim(R[k0]) == vsize(k0))),
            ("blocks-of-the-untransformed-vector-have-the-variable-sizes", z3.Implies(z3.And(base, Uu, mem[k0]), F1.dim(R2[k0]) == vsize(k0))),
            # step 2: component i0 of block k0 of untransform_vect(transform_vect(x)), given step 1 (sized) and the block algebra
            ("round-trip:uncertain-component", z3.Implies(z3.And(base, Uu, sized(R), sized(R2), A1(R), A1(R2), M_, SUP, at, unc[k0]),
                                                          F1.els(blk(z, N, k0))[i0] == F1.els(blk(x, N, k0))[i0])),
            ("round-trip:deterministic-component", z3.Implies(z3.And(base, Uu, sized(R), sized(R2), A1(R), A1(R2), DC, at, z3.Not(unc[k0])),
                                                              F1.els(blk(z, N, k0))[i0] == F1.els(blk(x, N, k0))[i0])),
            ("round-trip:block-length", z3.Implies(z3.And(base, Uu, sized(R), sized(R2), A1(R), A1(R2), mem[k0]), F1.dim(blk(z, N, k0)) == F1.dim(blk(x, N, k0)))),
            # the transformed uncertain components are probabilities: what untransform_vect (__check_dict_of_array) demands
            ("transformed-uncertain-components-are-probabilities",
             z3.Implies(z3.And(base, sized(R), A1(R), M_, at, unc[k0]), z3.And(0 <= F1.els(blk(y, N, k0))[i0], F1.els(blk(y, N, k0))[i0] <= 1))),
        ]


# ---------------------------------------------------------------------------- removal of a variable
full_joint = z3.Function("c19_full_joint_distribution", NAMES.sort(), DISTS.sort(), TVal.sort())  # JOINT_DISTRIBUTION_CLASS(all marginals, in order)


# what the joint distribution of ALL the uncertain variables was last built from (ghost: the names, in order, and their distributions at that moment)
declare_ghost("c19_joint_names", NAMES.sort())
declare_ghost("c19_joint_dists", DISTS.sort())
JOINT_GHOSTS = ("ghost:c19_joint_names", "ghost:c19_joint_dists")
from pyvc.values import val_none  # noqa: E402


def joint_ghosts(c, new=True):
    g = c.new_ghost if new else c.old_ghost
    return g("c19_joint_names", NAMES.sort()), g("c19_joint_dists", DISTS.sort())


def joint_is_that_of(c, s1):
    """`distribution` of the final state s1 is the joint distribution built from exactly the uncertain variables of s1, in their order, with their distributions."""
    gn, gd = joint_ghosts(c)
    u1, d1 = UV(s1), DD(s1)
    i, k = z3.Int("i!jg"), z3.Const("k!jg", StrS)
    gel, gmem, gvals = NAMES.dt.accessor(0, 1)(gn), DISTS.acc(0)(gd), DISTS.acc(1)(gd)
    return [("joint:built-from-the-recorded-variables", s1.distribution == full_joint(gn, gd)),
            ("joint:same-variables-in-the-same-order", z3.And(NAMES.dt.accessor(0, 0)(gn) == u1.n, fa([i], z3.Implies(z3.And(0 <= i, i < u1.n), gel[i] == u1.elems[i]), u1.elems[i]))),
            ("joint:with-their-distributions", fa([i], z3.Implies(z3.And(0 <= i, i < u1.n), z3.And(gmem[u1.elems[i]], gvals[u1.elems[i]] == d1.get(u1.elems[i]))), u1.elems[i]))]


@register
class BuildJointDistribution(Contract):
    targets = (PS + ".build_joint_distribution",)
    prop = ("C19",)
    trusted = True
    description = ("assumed (nested comprehension + third-party copula): build_joint_distribution sets `distribution` to the joint distribution "
                   "c19_full_joint_distribution(uncertain_variables, distributions) of all the marginals of all the uncertain variables, in order, when there is an "
                   "uncertain variable (what it was built from is recorded in the ghosts c19_joint_names / c19_joint_dists), and changes nothing otherwise; nothing else changes")
    modifies = ("self",) + JOINT_GHOSTS

    def ensures(self, c):
        s0, s1 = c.old.self, c.new.self
        u, d = UV(s0), DD(s0)
        gn0, gd0 = joint_ghosts(c, new=False)
        gn1, gd1 = joint_ghosts(c)
        built = u.n > 0
        return [("recorded", z3.And(gn1 == z3.If(built, list_term(NAMES, u), gn0), gd1 == z3.If(built, dict_term(DISTS, d), gd0))),
                ("distribution", s1.distribution == z3.If(built, full_joint(gn1, gd1), s0.distribution))] + ps_kept(s0, s1, "distribution")


_DS_HELPERS = {DS + ".remove_variable": "c19", DS + ".__update_current_metadata": "c19", DS + ".__update_current_status": "c19", DS + ".__clear_dependent_data": "c19"}


def _on_parameter_space(base, doc, reprove=True):
    """The C02 contract of a DesignSpace method, RE-VERIFIED on a parameter space (the fields of ParameterSpace are part of the state): the C02
    postcondition, and the uncertain variables / distributions / joint distribution are untouched.  With reprove=False the C02 clauses are NOT proved a
    second time (label prefix `assumed:`): they are proved under C02 on the very same function body, which - this is what IS proved here - does not touch
    the fields of ParameterSpace (re-proving them with the larger state only adds slow, load-sensitive duplicates of the C02 obligations)."""

    def ensures(self, c):
        s0, s1 = c.old.self, c.new.self
        inherited = base.ensures(self, c) if reprove else [(f"assumed:proved-under-C02:{l}", f) for l, f in base.ensures(self, c)]
        return inherited + [f for f in ps_kept(s0, s1) if f[0] in _PS_OWN]

    return register(type(base.__name__ + "C19", (base,), {"variant": "c19", "prop": ("C19",), "self_schema": PS, "self_class": PS, "callee_variants": _DS_HELPERS,
                                                          "ensures": ensures, "__doc__": doc, "__module__": __name__}))


for _b in (DS2.UpdateCurrentStatus, DS2.ClearDependentData, DS2.UpdateCurrentMetadata, DS2.RemoveVariable):
    _on_parameter_space(_b, f"DesignSpace.{_b.targets[0].rsplit('.', 1)[-1]} on a parameter space: the C02 postcondition + the fields of ParameterSpace are untouched.",
                        reprove=_b is not DS2.RemoveVariable)


def _first_index(u, name, p):
    i = z3.Int("i!fi")
    return z3.And(0 <= p, p < u.n, u.elems[p] == name, fa([i], z3.Implies(z3.And(0 <= i, i < p), u.elems[i] != name), u.elems[i]))


@register
class RemoveVariable(Contract):
    """The variable leaves the design space (C02 postcondition: order of the others kept, index ranges shifted) AND, when it is uncertain, the list of
    uncertain variables (order of the others kept) and the distributions; the parameter-space invariant is kept.  (That the joint distribution of ALL the uncertain
    variables is rebuilt from the remaining ones is not stated: see not_covered and the observation on the stale joint distribution.)"""

    targets = (PS + ".remove_variable",)
    prop = ("C19",)
    c19 = True
    callee_variants = _DS_HELPERS
    params = {"name": TStr}
    modifies = ("self",) + JOINT_GHOSTS
    raises = {"KeyError": lambda c: z3.Not(DS2.V(c.old.self).has(c.old.name))}

    def requires(self, c):
        s = c.old.self
        return DS2.wf(s) + ps_wf(s)

    def axioms(self, c):
        return DS2.derived_wf(c.old.self)

    def ensures(self, c):
        s0, s1 = c.old.self, c.new.self
        nm = c.old.name
        u0, u1, d0, d1 = UV(s0), UV(s1), DD(s0), DD(s1)
        was = in_list(u0, nm)
        p, i, k = z3.Int("p!rv"), z3.Int("i!rv"), z3.Const("k!rv", StrS)
        return DS2.wf(s1) + ps_wf(s1) + [
            ("variables", DS2.without_key(DS2.V(s1), DS2.V(s0), nm)),
            ("dimension", s1.dimension == s0.dimension - DS2.size(DS2.V(s0).vals[nm])),
            ("deterministic:uncertain-variables-kept", z3.Implies(z3.Not(was), z3.And(u1.n == u0.n, z3.ForAll([i], z3.Implies(z3.And(0 <= i, i < u0.n), u1.elems[i] == u0.elems[i]))))),
            ("uncertain:removed-from-the-uncertain-variables-order-kept",
             z3.Implies(was, z3.Exists([p], z3.And(_first_index(u0, nm, p), u1.n == u0.n - 1,
                                                   z3.ForAll([i], z3.Implies(z3.And(0 <= i, i < u1.n), u1.elems[i] == z3.If(i < p, u0.elems[i], u0.elems[i + 1]))))))),
            ("no-longer-uncertain", z3.Not(in_list(u1, nm))),
            ("distributions", z3.ForAll([k], z3.And(d1.has(k) == z3.And(d0.has(k), z3.Or(k != nm, z3.Not(was))), z3.Implies(d1.has(k), d1.get(k) == d0.get(k))))),
            ("deterministic:joint-distribution-kept", z3.Implies(z3.Not(was), s1.distribution == s0.distribution)),
        ] + [(f"uncertain:{l}", z3.Implies(z3.And(was, u1.n > 0), f)) for l, f in joint_is_that_of(c, s1)] + [
            # "its samples ... are consistent with these laws": once no uncertain variable is left there is no law to sample (None is the value __init__ gives;
            # repaired in /repo 910a44a: `distribution` used to keep describing the removed variable, which compute_samples went on sampling)
            ("uncertain:no-joint-distribution-of-a-removed-variable-survives", z3.Implies(z3.And(was, u1.n == 0), s1.distribution == val_none)),
        ]


# ---------------------------------------------------------------------------- parameter forwarding of the named SciPy-based distributions
FPM = "gemseo.utils.file_path_manager.FilePathManager"
_SCALAR_INIT = {**_SCALAR, "_file_path_manager": TVal, "_get_string_representation": TStr}
schema(SPD + "#init", _SCALAR_INIT)
STD = TDict(TStr, TReal)


@register
class SPInit(_Wrap):
    """SPDistribution(name, parameters, standard_parameters): the wrapped object is made from (scipy.stats, name, parameters) - the standard parameters are
    only used for the string representation - and range / support are recorded from it (postcondition of _create_distribution)."""

    targets = (SPD + ".__init__",)
    self_schema = SPD + "#init"
    params = {"interfaced_distribution": TStr, "parameters": KWR, "standard_parameters": STD}
    modifies = ("self",)
    raises = {"ImportError": None, "ValueError": None}

    def ensures(self, c):
        s = c.new.self
        d = D(s)
        return [("made-from-the-given-name-and-parameters", z3.And(_made_from(d, "scipy.stats", c.old.interfaced_distribution), created_kw(d) == dict_term(KWR, c.old.parameters))),
                ("support-is-the-wrapped-interval-of-probability-1", z3.And(s.math_lower_bound == interval_lo(d, 1), s.math_upper_bound == interval_hi(d, 1))),
                ("range-is-the-wrapped-quantiles-at-1e-12", z3.And(s.num_lower_bound == icdf_v(d, rv(1e-12)), s.num_upper_bound == icdf_v(d, rv(1 - 1e-12))))]


def _sp_named(cls_path, name, params, table, doc, extra_requires=None):
    """A named distribution class: SciPy name and keyword parameters computed from the arguments (`table`: keyword -> term over the arguments)."""
    q = U + "scipy." + cls_path
    schema(q, _SCALAR_INIT)

    def ensures(self, c):
        d = D(c.new.self)
        kw = created_kw(d)
        mem, vals = KWR.acc(0)(kw), KWR.acc(1)(kw)
        k = z3.Const("k!nm", StrS)
        args = {p: getattr(c.old, p) for p in params}
        exp = table(args)
        out = [("scipy-name", _made_from(d, "scipy.stats", str_lit(name))),
               ("exactly-these-keywords", z3.ForAll([k], mem[k] == z3.Or(*[k == str_lit(x) for x in exp])))]
        out += [(f"keyword:{x}", vals[str_lit(x)] == t) for x, t in exp.items()]
        return out

    def requires(self, c):
        return extra_requires({p: getattr(c.old, p) for p in params}) if extra_requires else []

    return register(type(cls_path.rsplit(".", 1)[-1], (_Wrap,), {"targets": (q + ".__init__",), "params": {p: TReal for p in params}, "modifies": ("self",),
                                                                 "raises": {"ImportError": None, "ValueError": None, "ZeroDivisionError": None},
                                                                 "ensures": ensures, "requires": requires, "__doc__": doc, "__module__": __name__}))


_sp_named("normal.SPNormalDistribution", "norm", ("mu", "sigma"), lambda a: {"loc": a["mu"], "scale": a["sigma"]},
          "SPNormalDistribution(mu, sigma) = scipy.stats.norm(loc=mu, scale=sigma): SciPy's mean is loc and its standard deviation is scale.")
_sp_named("uniform.SPUniformDistribution", "uniform", ("minimum", "maximum"), lambda a: {"loc": a["minimum"], "scale": a["maximum"] - a["minimum"]},
          "SPUniformDistribution(minimum, maximum) = scipy.stats.uniform(loc=minimum, scale=maximum - minimum): SciPy's support is [loc, loc + scale].")
_sp_named("exponential.SPExponentialDistribution", "expon", ("rate", "loc"), lambda a: {"loc": a["loc"], "scale": 1 / a["rate"]},
          "SPExponentialDistribution(rate, loc) = scipy.stats.expon(loc=loc, scale=1/rate) (ZeroDivisionError for rate = 0).")
_sp_named("triangular.SPTriangularDistribution", "triang", ("minimum", "mode", "maximum"),
          lambda a: {"loc": a["minimum"], "scale": a["maximum"] - a["minimum"], "c": (a["mode"] - a["minimum"]) / (a["maximum"] - a["minimum"])},
          "SPTriangularDistribution(minimum, mode, maximum) = scipy.stats.triang(loc=minimum, scale=maximum - minimum, c=(mode - minimum)/(maximum - minimum)).")
_sp_named("beta.SPBetaDistribution", "beta", ("alpha", "beta", "minimum", "maximum"),
          lambda a: {"a": a["alpha"], "b": a["beta"], "loc": a["minimum"], "scale": a["maximum"] - a["minimum"]},
          "SPBetaDistribution(alpha, beta, minimum, maximum) = scipy.stats.beta(a=alpha, b=beta, loc=minimum, scale=maximum - minimum).")


@register
class NamedDistributionLemmas(Contract):
    """The keyword parameters proved above denote the law the arguments describe, GIVEN SciPy's documented location-scale parameterisation (ASSUMED, cross-checked
    natively for a few values: support of uniform / beta / triang(loc, scale) = [loc, loc + scale], mode of triang = loc + c * scale, mean / std of
    norm(loc, scale) = loc / scale, support of expon(loc, scale) = [loc, inf) with mean loc + scale):"""

    targets = ()
    prop = ("C19",)
    lemma = True

    def lemmas(self):
        mn, mx, mode, rate, loc, scale, c_ = z3.Reals("minimum maximum mode rate loc scale c")
        loc_scale = z3.And(loc == mn, scale == mx - mn)
        return [("uniform-beta-triangular:support-upper-end-is-maximum", z3.Implies(loc_scale, z3.And(loc == mn, loc + scale == mx))),
                ("triangular:mode", z3.Implies(z3.And(loc_scale, mx != mn, c_ == (mode - mn) / (mx - mn)), loc + c_ * scale == mode)),
                ("triangular:shape-in-unit-interval", z3.Implies(z3.And(mn <= mode, mode <= mx, mn < mx, c_ == (mode - mn) / (mx - mn)), z3.And(0 <= c_, c_ <= 1))),
                ("exponential:mean", z3.Implies(z3.And(rate != 0, scale == 1 / rate), loc + scale == loc + 1 / rate)),
                ("exponential:positive-scale", z3.Implies(z3.And(rate > 0, scale == 1 / rate), scale > 0))]


# ---------------------------------------------------------------------------- registration of a random vector / variable
from pyvc.plug_c19 import default_marginal, family_id  # noqa: E402

declare_ghost("c19_added_name", StrS)
declare_ghost("c19_added_lower_bound", F1.sort())
declare_ghost("c19_added_upper_bound", F1.sort())
declare_ghost("c19_added_value", F1.sort())
ADD_GHOSTS = ("ghost:c19_added_name", "ghost:c19_added_lower_bound", "ghost:c19_added_upper_bound", "ghost:c19_added_value")


def added(c):
    g = c.new_ghost
    return g("c19_added_name", StrS), g("c19_added_lower_bound", F1.sort()), g("c19_added_upper_bound", F1.sort()), g("c19_added_value", F1.sort())


@register
class DsAddVariableC19(DS2.AddVariable):
    variant = "c19"
    prop = ("C19",)
    self_schema = PS
    self_class = PS
    numpy = "precise"
    trusted = True
    params = {"name": TStr, "size": TInt, "type_": TStr, "lower_bound": F1, "upper_bound": F1, "value": F1}
    modifies = ("self",) + ADD_GHOSTS
    description = ("assumed on a parameter space: the C02 postcondition of DesignSpace.add_variable (PROVED under C02 with opaque bound arrays: the variable is appended last with "
                   "index range [dimension, dimension + size), the others untouched, or ValueError), the fields of ParameterSpace are untouched, and the variable is registered WITH THE "
                   "GIVEN lower / upper bound vectors and current value - recorded in the ghosts c19_added_* (what the stored bounds are numerically is the C02 link level)")

    def _c02_post(self, c):
        """The clauses of contracts/c02_design_space.py AddVariable (a current value is given)."""
        s0, s1 = c.old.self, c.new.self
        nm, sz = c.old.name, c.old.size
        v0, v1, cv0, cv1 = DS2.V(s0), DS2.V(s1), DS2.CV(s0), DS2.CV(s1)
        k = z3.Const("k!av", StrS)
        return DS2.wf(s1) + [
            ("was-a-new-name", z3.Not(v0.has(nm))),
            ("variables-appended", DS2.appended_key(v1, v0, nm)),
            ("normalize-appended", DS2.appended_key(DS2.N(s1), DS2.N(s0), nm)),
            ("indices-appended", DS2.appended_key(DS2.I(s1), DS2.I(s0), nm)),
            ("index-range", z3.And(DS2.start(DS2.I(s1).vals[nm]) == s0.dimension, DS2.stop(DS2.I(s1).vals[nm]) == s0.dimension + sz)),
            ("size-and-type", z3.And(DS2.size(v1.vals[nm]) == sz, DS2.VAR.accessor("type")(v1.vals[nm]) == sterm(c.old.type_))),
            ("dimension", s1.dimension == s0.dimension + sz),
            ("other-values-kept", z3.ForAll([k], z3.Implies(k != nm, z3.And(cv1.has(k) == cv0.has(k), z3.Implies(cv0.has(k), cv1.vals[k] == cv0.vals[k]))))),
            ("value-set", cv1.has(nm)),
        ] + DS2.caches_invalidated(s0, s1)

    def ensures(self, c):
        s0, s1 = c.old.self, c.new.self
        gname, glb, gub, gval = added(c)
        return self._c02_post(c) + [f for f in ps_kept(s0, s1) if f[0] in _PS_OWN] + \
            [("registered-with-the-given-bounds-and-value", z3.And(gname == c.old.name, glb == arr1(c.old.lower_bound), gub == arr1(c.old.upper_bound), gval == arr1(c.old.value)))]


@register
class GetRandomVectorSize(Contract):
    targets = (PS + ".__get_random_vector_size",)
    prop = ("C19",)
    trusted = True
    description = ("assumed (nested set comprehension over the parameter collections): __get_random_vector_size returns the given size when it is not 0, otherwise the largest "
                   "length of the parameter collections - 1 when there is none -, or raises ValueError when the lengths are inconsistent; no side effect")
    params = {"size": TInt}
    returns = TInt
    raises = {"ValueError": None}

    def ensures(self, c):
        sz, r = c.old.size, c.result
        idp, pv = c.arg("interfaced_distribution_parameters"), c.arg("parameter_values")
        po = c._old_heap[pv.ref.id] if hasattr(pv, "ref") else None
        none = isinstance(idp, tuple) and len(idp) == 0 and po is not None and z3.is_int_value(z3.simplify(po.n)) and z3.simplify(po.n).as_long() == 0
        return [("given-size", z3.Implies(sz != 0, r == sz)), ("deduced-size-at-least-one", z3.Implies(sz == 0, r >= 1))] + \
            ([("no-parameter-collection:one", z3.Implies(sz == 0, r == 1))] if none else [])


FAM = "_ParameterSpace__distribution_family_id"
_ADD_CALLEES = {DS + ".add_variable": "c19"}


def registration_post(c, name, default_class=None, size=None):
    """What registering the random vector `name` establishes (see AddRandomVector)."""
    s0, s1 = c.old.self, c.new.self
    u0, u1, d0, d1, v0, v1 = UV(s0), UV(s1), DD(s0), DD(s1), DS2.V(s0), DS2.V(s1)
    J = d1.get(name)
    n = j_n(J)
    gname, glb, gub, gval = added(c)
    i, k = z3.Int("i!rg"), z3.Const("k!rg", StrS)
    out = DS2.wf(s1) + ps_wf(s1) + [
        ("was-a-new-name", z3.Not(v0.has(name))),
        ("appended-last-to-the-uncertain-variables", z3.And(u1.n == u0.n + 1, u1.elems[u0.n] == name, z3.ForAll([i], z3.Implies(z3.And(0 <= i, i < u0.n), u1.elems[i] == u0.elems[i])))),
        ("its-distribution-registered-the-others-kept", z3.And(d1.has(name), z3.ForAll([k], z3.Implies(k != name, z3.And(d1.has(k) == d0.has(k), z3.Implies(d0.has(k), d1.get(k) == d0.get(k))))))),
        ("appended-last-to-the-design-variables", DS2.appended_key(v1, v0, name)),
        ("one-component-per-marginal-float-type", z3.And(DS2.size(v1.vals[name]) == n, DS2.VAR.accessor("type")(v1.vals[name]) == str_lit("float"), s1.dimension == s0.dimension + n)),
        ("bounds-are-the-support-the-distribution-reports", z3.And(gname == name, glb == JOINT.accessor("math_lower_bound")(J), gub == JOINT.accessor("math_upper_bound")(J))),
        ("current-value-is-the-mean-the-distribution-reports", z3.And(F1.dim(gval) == n, fa([i], z3.Implies(z3.And(0 <= i, i < n), F1.els(gval)[i] == mean_v(j_dist(J, i))), F1.els(gval)[i]))),
    ] + joint_is_that_of(c, s1)
    if default_class is not None:
        dc = sterm(default_class)
        out += [("size", n == z3.If(size == 0, 1, size)),
                ("marginals-made-by-the-named-class", fa([i], z3.Implies(z3.And(0 <= i, i < n), MARGS.dt.accessor(0, 1)(JOINT.accessor("marginals")(J))[i] == default_marginal(dc)),
                                                         MARGS.dt.accessor(0, 1)(JOINT.accessor("marginals")(J))[i])),
                ("family-recorded", getattr(s1, FAM) == z3.If(str_nonempty_f(getattr(s0, FAM)), getattr(s0, FAM), family_id(dc)))]
    return out


def _arv_inv(c, k):
    m = c.locals["marginals"]
    i = z3.Int("i!ai")
    return [("count", m.n == k), ("made-by-the-class", fa([i], z3.Implies(z3.And(0 <= i, i < k), m.elems[i] == default_marginal(sterm(c.old.distribution))), m.elems[i]))]


class _Registration(Contract):
    prop = ("C19",)
    c19 = True
    numpy = "precise"
    callee_variants = _ADD_CALLEES
    modifies = ("self",) + JOINT_GHOSTS + ADD_GHOSTS
    raises = {"ValueError": None}

    def requires(self, c):
        s = c.old.self
        return DS2.wf(s) + ps_wf(s)

    def axioms(self, c):
        return DS2.derived_wf(c.old.self)


@register
class AddRandomVectorDefault(_Registration):
    """add_random_vector(name, distribution, size) WITHOUT distribution parameters (default law, no interfaced distribution) - VERIFIED: the vector is appended
    last to uncertain_variables (order of the others kept) and to the design variables, with one float component per marginal; its joint distribution is made of
    `size` (1 when 0) marginals of the named class and is registered under its name, the other distributions being kept; the design variable is added with the
    SUPPORT the joint distribution reports as bounds and the MEAN it reports as current value; the joint distribution of ALL the uncertain variables is rebuilt
    from exactly the uncertain variables of the final state, in order; the design-space and parameter-space invariants hold afterwards (ValueError: existing
    name, mixed families, rejected by the library or by add_variable)."""

    targets = (PS + ".add_random_vector",)
    variant = "default-parameters"
    params = {"name": TStr, "distribution": TStr, "size": TInt}
    loops = {0: LoopSpec(anchor="range(size)", inv=_arv_inv, modifies=("marginals",), local_types={"marginals": MARGS, "i": TInt})}

    def requires(self, c):
        return super().requires(c) + [("non-negative-size", c.old.size >= 0)]

    def ensures(self, c):
        return registration_post(c, c.old.name, c.old.distribution, c.old.size)


def _general_post(c):
    s0, s1 = c.old.self, c.new.self
    sz, dc = c.old.size, sterm(c.old.distribution)
    n = j_n(DD(s1).get(c.old.name))
    return registration_post(c, c.old.name) + [
        ("given-size", z3.Implies(sz != 0, n == sz)),
        ("family-recorded", getattr(s1, FAM) == z3.If(str_nonempty_f(getattr(s0, FAM)), getattr(s0, FAM), family_id(dc)))]


@register
class AddRandomVector(_Registration):
    targets = (PS + ".add_random_vector",)
    trusted = True
    params = {"name": TStr, "distribution": TStr, "size": TInt}
    description = ("assumed for ARBITRARY distribution parameters, VERIFIED for the default-parameter case (variant add_random_vector@default-parameters, same clauses): the "
                   "parameters only select the marginals (per-component broadcasting of the parameter collections, distribution_class(**kwargs), textual definitions) - this "
                   "part is not modelled; the registration itself (order in uncertain_variables and in the design space, support as bounds, mean as current value, joint "
                   "distribution of all uncertain variables rebuilt, invariants) does not depend on them")

    def ensures(self, c):
        return _general_post(c)


@register
class AddRandomVariable(_Registration):
    """add_random_variable(name, distribution, size, **parameters) registers the random vector `name` of the named distribution class and of the given size (what
    add_random_vector establishes: appended last to uncertain_variables and to the design space, support as bounds, mean as current value, joint distribution
    rebuilt, invariants); the parameters are forwarded as one-element collections (their use by add_random_vector is not modelled)."""

    targets = (PS + ".add_random_variable",)
    params = {"name": TStr, "distribution": TStr, "size": TInt, "parameters": TDict(TStr, TVal)}

    def ensures(self, c):
        return _general_post(c)


# ---------------------------------------------------------------------------- samples of the parameter space
from pyvc.plug_c19 import JOINT_DRAW_GHOSTS, joint_dimension  # noqa: E402


def arr2(a):
    return F2.dt.mk(a.obj.shape[0], a.obj.shape[1], a.obj.elems)


def one_joint_draw(c, n, values_term):
    g0, g1 = c.old_ghost, c.new_ghost
    return [("one-draw-from-the-joint-distribution-of-all-uncertain-variables", z3.And(g1("c19_joint_draw_n", INT) == g0("c19_joint_draw_n", INT) + 1,
                                                                                        g1("c19_joint_draw_of", TVal.sort()) == c.old.self.distribution,
                                                                                        g1("c19_joint_draw_size", INT) == n)),
            ("what-was-drawn", g1("c19_joint_draw_values", F2.sort()) == values_term)]


@register
class ComputeSamplesArray(Contract):
    """compute_samples(n) returns the n x d matrix of exactly ONE call of the sampler of `distribution`, the joint distribution of all the uncertain variables
    (d = the dimension this joint distribution reports); nothing is modified."""

    targets = (PS + ".compute_samples",)
    prop = ("C19",)
    c19 = True
    numpy = "precise"
    params = {"n_samples": TInt}
    returns = F2
    modifies = JOINT_DRAW_GHOSTS
    raises = {"ValueError": lambda c: c.old.n_samples < 0}

    def ensures(self, c):
        r = c.result
        return [("n-rows-d-columns", z3.And(ln(r, 0) == c.old.n_samples, ln(r, 1) == joint_dimension(c.old.self.distribution)))] + one_joint_draw(c, c.old.n_samples, arr2(r))


def _rows_spec(c, L, sample_term):
    """L[r] = the split of row r along the uncertain variables, in their order (blocks relative to the layout c19_variable_size)."""
    u = UV(c.old.self)
    r, i = z3.Int("r!rs"), z3.Int("i!rs")
    nt = list_term(NAMES, u)
    row = lambda rr: F1.dt.mk(F2.dim(sample_term, 1), z3.Lambda([i], z3.Select(F2.els(sample_term), rr, i)))  # noqa: E731
    x = z3.Const("x!rs", StrS)
    d = lambda rr: L.elems[rr]  # noqa: E731
    return [("one-dictionary-per-sample", L.n == F2.dim(sample_term, 0)),
            ("exactly-the-uncertain-variables", z3.ForAll([r, x], z3.Implies(z3.And(0 <= r, r < L.n), BLOCKS.acc(0)(d(r))[x] == in_list(u, x)))),
            ("each-entry-is-the-block-of-its-variable-in-the-row", z3.ForAll([r, x], z3.Implies(z3.And(0 <= r, r < L.n, in_list(u, x)), BLOCKS.acc(1)(d(r))[x] == blk(row(r), nt, x))))]


@register
class ComputeSamplesDicts(Contract):
    """compute_samples(n, as_dict=True): one dictionary per row of the matrix drawn (ONE call of the sampler of the joint distribution of all the uncertain
    variables), with exactly the uncertain variables as keys, the entry of a variable being its block of the row - blocks laid out along uncertain_variables
    IN THEIR ORDER with the sizes of the variables."""

    targets = (PS + ".compute_samples",)
    variant = "as_dict"
    prop = ("C19",)
    c19 = True
    numpy = "precise"
    callee_variants = CALLEES
    params = {"n_samples": TInt, "as_dict": TBool}
    returns = TList(BLOCKS)
    modifies = JOINT_DRAW_GHOSTS
    raises = {"ValueError": lambda c: c.old.n_samples < 0}

    def requires(self, c):
        return [("as-dict", bv(c.old.as_dict))] + ps_wf(c.old.self)

    def axioms(self, c):
        return layout_definition(c.old.self)

    def ensures(self, c):
        g1 = c.new_ghost
        drawn = g1("c19_joint_draw_values", F2.sort())
        return [("n-rows", F2.dim(drawn, 0) == c.old.n_samples)] + one_joint_draw(c, c.old.n_samples, drawn) + _rows_spec(c, c.result, drawn)


# ---------------------------------------------------------------------------- renaming a variable
_on_parameter_space(DS2.RenameVariable, "DesignSpace.rename_variable on a parameter space: the C02 postcondition (assumed: proved under C02 on the same body) + the fields of "
                    "ParameterSpace are untouched (proved).", reprove=False)
_DS_HELPERS[DS + ".rename_variable"] = "c19"
DEFS = "_ParameterSpace__uncertain_variables_to_definitions"


def joint_positional(c, s, new=True):
    """Marginal block i of the joint distribution of all uncertain variables is the distribution of uncertain_variables[i]: `distribution` was built from a
    list of as many names, whose i-th recorded distribution is the distribution of the i-th uncertain variable of s (names may have been renamed since)."""
    gn, gd = joint_ghosts(c, new=new)
    u, d = UV(s), DD(s)
    i = z3.Int("i!jp")
    gel, gmem, gvals = NAMES.dt.accessor(0, 1)(gn), DISTS.acc(0)(gd), DISTS.acc(1)(gd)
    return [("joint:built-from-the-recorded-variables", s.distribution == full_joint(gn, gd)),
            ("joint:as-many-blocks-as-uncertain-variables", NAMES.dt.accessor(0, 0)(gn) == u.n),
            ("joint:block-i-is-the-distribution-of-uncertain-variable-i", fa([i], z3.Implies(z3.And(0 <= i, i < u.n), z3.And(gmem[gel[i]], gvals[gel[i]] == d.get(u.elems[i]))), u.elems[i]))]


@register
class RenameVariable(Contract):
    """The C02 postcondition of DesignSpace.rename_variable (renamed in place in the design space) AND, for an uncertain variable: uncertain_variables keeps its
    length and order with the name replaced AT THE SAME POSITION, its distribution is re-keyed (the others kept), the parameter-space invariant is kept and -
    the joint distribution of all uncertain variables not being rebuilt - its marginal block i is still the distribution of uncertain_variables[i]."""

    targets = (PS + ".rename_variable",)
    prop = ("C19",)
    c19 = True
    callee_variants = _DS_HELPERS
    params = {"current_name": TStr, "new_name": TStr}
    modifies = ("self",)
    raises = {"ValueError": lambda c: z3.Not(DS2.V(c.old.self).has(c.old.current_name))}

    def requires(self, c):
        s = c.old.self
        u, defs = UV(s), getattr(s, DEFS)
        i = z3.Int("i!rq")
        return DS2.wf(s) + ps_wf(s) + [
            ("new-name-is-free", z3.Or(z3.Not(DS2.V(s).has(c.old.new_name)), c.old.new_name == c.old.current_name)),
            # established by add_random_vector (`self.__uncertain_variables_to_definitions[name] = ...`, a statement the model of add_random_vector skips)
            ("uncertain-variables-have-a-definition", fa([i], z3.Implies(z3.And(0 <= i, i < u.n), defs.has(u.elems[i])), u.elems[i]))] + \
            [(f"entry:{l}", z3.Implies(u.n > 0, f)) for l, f in joint_positional(c, s, new=False)]

    def axioms(self, c):
        return DS2.derived_wf(c.old.self)

    def ensures(self, c):
        s0, s1 = c.old.self, c.new.self
        a, b = c.old.current_name, c.old.new_name
        u0, u1, d0, d1 = UV(s0), UV(s1), DD(s0), DD(s1)
        was = in_list(u0, a)
        i, k = z3.Int("i!rn"), z3.Const("k!rn", StrS)
        c02 = [(f"design-space:{l}", f) for l, f in DS2.RenameVariable.ensures(self, c)]
        return c02 + ps_wf(s1) + [
            ("uncertain-variables:renamed-at-the-same-position", z3.And(u1.n == u0.n, fa([i], z3.Implies(z3.And(0 <= i, i < u0.n), u1.elems[i] == z3.If(u0.elems[i] == a, b, u0.elems[i])),
                                                                                        u0.elems[i]))),
            ("distributions:re-keyed", z3.ForAll([k], d1.has(k) == z3.Or(z3.And(d0.has(k), z3.Or(k != a, z3.Not(was))), z3.And(k == b, was)))),
            ("distributions:values", z3.And(z3.Implies(was, d1.get(b) == d0.get(a)), z3.ForAll([k], z3.Implies(z3.And(d0.has(k), k != a, z3.Or(k != b, z3.Not(was))), d1.get(k) == d0.get(k))))),
            ("joint-distribution-not-rebuilt", s1.distribution == s0.distribution),
        ] + [(l, z3.Implies(u0.n > 0, f)) for l, f in joint_positional(c, s1)]


# ---------------------------------------------------------------------------- log-normal distributions: (mean, std, location) -> parameters of the logarithm
from pyvc.npmodel import np_exp, np_log, np_sqrt  # noqa: E402
from pyvc.values import TTuple  # noqa: E402

LNU = U + "_log_normal_utils.compute_mu_l_and_sigma_l"


def _ln_terms(mu, sigma, location):
    m = mu - location
    ratio = sigma / m
    q = ratio * ratio + 1  # 1 + (coefficient of variation of the unshifted variable)^2
    return m, q


def ln_mu_l(mu, sigma, location):
    m, q = _ln_terms(mu, sigma, location)
    return np_log(m) - np_log(q) / 2


def ln_sigma_l(mu, sigma, location):
    m, q = _ln_terms(mu, sigma, location)
    return np_sqrt(np_log(q))


def _ln_axioms(mu, sigma, location):
    """Ground instances, at the terms of compute_mu_l_and_sigma_l, of the usual axioms of the (uninterpreted) log and sqrt (m = mu - location > 0)."""
    m, q = _ln_terms(mu, sigma, location)
    r = np_sqrt(q)
    t = np_log(q)
    pos = m > 0
    return [("sqrt:square-root-of-a-positive-number", z3.Implies(q >= 1, z3.And(r * r == q, r > 0))),
            ("log:quotient", z3.Implies(pos, np_log(m / r) == np_log(m) - np_log(r))),
            ("log:square-root", z3.Implies(pos, 2 * np_log(r) == np_log(q))),
            ("log:non-negative-from-one", z3.Implies(q >= 1, t >= 0)),
            ("sqrt:squares-back", z3.Implies(t >= 0, z3.And(np_sqrt(t) * np_sqrt(t) == t, np_sqrt(t) >= 0)))]


@register
class ComputeMuLAndSigmaL(Contract):
    """For m = mu - location > 0 and c = sigma / m (coefficient of variation of the UNSHIFTED variable X - location):
      sigma_l^2 = log(1 + c^2),  sigma_l >= 0,  mu_l = log(m) - sigma_l^2 / 2
    i.e. (LogNormalMomentLemmas) the log-normal law with these parameters of the logarithm, shifted by `location`, has mean mu and standard deviation sigma.
    log / sqrt are uninterpreted (ground instances of their usual axioms); ZeroDivisionError only when mu == location."""

    targets = (LNU,)
    prop = ("C19",)
    c19 = True
    numpy = "precise"
    params = {"mu": TReal, "sigma": TReal, "location": TReal}
    returns = TTuple(TReal, TReal)
    raises = {"ZeroDivisionError": lambda c: c.old.mu == c.old.location}

    def axioms(self, c):
        return _ln_axioms(c.old.mu, c.old.sigma, c.old.location)

    def ensures(self, c):
        mu, sigma, loc = c.old.mu, c.old.sigma, c.old.location
        m, q = _ln_terms(mu, sigma, loc)
        mu_l, sigma_l = c.result_value
        mu_l, sigma_l = mu_l.term, sigma_l.term
        pos = m > 0
        return [("sigma_l-squared-is-log-of-one-plus-squared-coefficient-of-variation", z3.Implies(pos, z3.And(sigma_l * sigma_l == np_log(q), sigma_l >= 0))),
                ("mu_l-is-log-of-shifted-mean-minus-half-sigma_l-squared", z3.Implies(pos, mu_l == np_log(m) - sigma_l * sigma_l / 2)),
                ("explicit:mu_l", z3.Implies(pos, mu_l == ln_mu_l(mu, sigma, loc))),
                ("explicit:sigma_l", z3.Implies(pos, sigma_l == ln_sigma_l(mu, sigma, loc)))]


@register
class LogNormalMomentLemmas(Contract):
    """With s2 = sigma_l^2 = log(1 + (sigma/m)^2) and mu_l = log(m) - s2/2 (postcondition above), m = mu - location > 0, and the usual axioms of exp / log
    (exp(log t) = t for t > 0, exp(a + b) = exp(a) exp(b)): location + exp(mu_l + s2/2) = mu (mean of the shifted log-normal law) and
    (exp(s2) - 1) exp(2 mu_l + s2) = sigma^2 (its variance)."""

    targets = ()
    prop = ("C19",)
    lemma = True

    def lemmas(self):
        mu, sigma, loc, mu_l, s2 = z3.Reals("mu sigma location mu_l s2")
        m, q = _ln_terms(mu, sigma, loc)
        hyp = z3.And(m > 0, s2 == np_log(q), mu_l == np_log(m) - s2 / 2,
                     np_exp(np_log(m)) == m, np_exp(np_log(q)) == q,  # exp(log t) = t, t > 0
                     np_exp(np_log(m) + np_log(m)) == np_exp(np_log(m)) * np_exp(np_log(m)))  # exp(a + b) = exp(a) exp(b)
        return [("mean-of-the-shifted-log-normal-law", z3.Implies(hyp, loc + np_exp(mu_l + s2 / 2) == mu)),
                ("variance-of-the-shifted-log-normal-law", z3.Implies(hyp, (np_exp(s2) - 1) * np_exp(2 * mu_l + s2) == sigma * sigma))]


schema(OTD + "#init", _SCALAR_INIT)
# what OTDistribution(...) was asked to create (ghost record of the last construction): name and positional parameters
declare_ghost("c19_ot_init_name", StrS)
declare_ghost("c19_ot_init_parameters", ARGS.sort())


@register
class OTInit(Contract):
    targets = (OTD + ".__init__",)
    prop = ("C19",)
    trusted = True
    self_schema = OTD + "#init"
    description = ("assumed (heterogeneous **options forwarding through BaseDistribution.__init__ is outside the engine's subset): OTDistribution(name, parameters, ...) creates the "
                   "wrapped object through _create_distribution(name, parameters, transformation, lower_bound, upper_bound, threshold) - VERIFIED (OTCreate) - with exactly this name "
                   "and these positional parameters, recorded in the ghosts c19_ot_init_*; ValueError / ImportError from the library")
    params = {"interfaced_distribution": TStr}
    modifies = ("self", "ghost:c19_ot_init_name", "ghost:c19_ot_init_parameters")
    raises = {"ImportError": None, "ValueError": None}

    def ensures(self, c):
        p = c.arg("parameters")
        return [("recorded", z3.And(c.new_ghost("c19_ot_init_name", StrS) == sterm(c.old.interfaced_distribution),
                                    c.new_ghost("c19_ot_init_parameters", ARGS.sort()) == ARGS.embed(c.st, p)))]


def _ln_params(c):
    mu, sigma, loc, sl = c.old.mu, c.old.sigma, c.old.location, bv(c.old.set_log)
    return z3.If(sl, mu, ln_mu_l(mu, sigma, loc)), z3.If(sl, sigma, ln_sigma_l(mu, sigma, loc)), loc, z3.Or(sl, mu - loc > 0)


class _LogNormal(_Wrap):
    params = {"mu": TReal, "sigma": TReal, "location": TReal, "set_log": TBool}
    raises = {"ImportError": None, "ValueError": None, "ZeroDivisionError": lambda c: z3.And(z3.Not(bv(c.old.set_log)), c.old.mu == c.old.location)}

    def axioms(self, c):
        return _ln_axioms(c.old.mu, c.old.sigma, c.old.location)


@register
class SPLogNormal(_LogNormal):
    """SPLogNormalDistribution(mu, sigma, location, set_log) = scipy.stats.lognorm(s=sigma_l, loc=location, scale=exp(mu_l)) where (mu_l, sigma_l) = (mu, sigma) when
    set_log, the parameters of the logarithm computed by compute_mu_l_and_sigma_l(mu, sigma, location) otherwise (stated for mu > location)."""

    targets = (U + "scipy.log_normal.SPLogNormalDistribution.__init__",)
    self_schema = SPD + "#init"
    modifies = ("self",)

    def ensures(self, c):
        mu_l, sigma_l, loc, ok = _ln_params(c)
        kw = created_kw(D(c.new.self))
        mem, vals = KWR.acc(0)(kw), KWR.acc(1)(kw)
        k = z3.Const("k!ln", StrS)
        return [("scipy-name", _made_from(D(c.new.self), "scipy.stats", "lognorm")),
                ("exactly-these-keywords", z3.ForAll([k], mem[k] == z3.Or(k == str_lit("s"), k == str_lit("loc"), k == str_lit("scale")))),
                ("keywords", z3.Implies(ok, z3.And(vals[str_lit("s")] == sigma_l, vals[str_lit("loc")] == loc, vals[str_lit("scale")] == np_exp(mu_l))))]


@register
class OTLogNormal(_LogNormal):
    """OTLogNormalDistribution(mu, sigma, location, set_log) = openturns.LogNormal(mu_l, sigma_l, location), same (mu_l, sigma_l) as the SciPy-based class."""

    targets = (U + "openturns.log_normal.OTLogNormalDistribution.__init__",)
    self_schema = OTD + "#init"
    modifies = ("self", "ghost:c19_ot_init_name", "ghost:c19_ot_init_parameters")

    def ensures(self, c):
        mu_l, sigma_l, loc, ok = _ln_params(c)
        p = c.new_ghost("c19_ot_init_parameters", ARGS.sort())
        n, els = ARGS.dt.accessor(0, 0)(p), ARGS.dt.accessor(0, 1)(p)
        return [("openturns-name", c.new_ghost("c19_ot_init_name", StrS) == str_lit("LogNormal")),
                ("three-positional-parameters", n == 3),
                ("parameters", z3.Implies(ok, z3.And(els[0] == mu_l, els[1] == sigma_l, els[2] == loc)))]
