"""C10 - function algebra and transformations evaluate and differentiate exactly.

Precise numpy model.  The operands are uninterpreted maps f, g: R^n -> R^m with uninterpreted Jacobian maps Df, Dg.
MDOFunction's conventions (mdo_function.py, mdo_linear_function.py:_func_to_wrap/_jac_to_wrap) give the shapes:
a function returns a vector of size m (rank-1 array) - or a number when m = 1 - and its Jacobian is a matrix of shape (m, n),
or a vector of shape (n,) for a number-valued function.  Every specification is index-wise, from the textbook rules.
"""
from __future__ import annotations

import z3

from pyvc import contract as C
from pyvc.contract import Contract, register, schema
from pyvc.npmodel import TArr
from pyvc.values import BuiltinV, T, TBool, TFun, TInt, TList, TNone, TObj, TReal  # noqa: F401

OPS = "gemseo.core.mdo_functions._operations."
MAKER, ADD, MUL = OPS + "_OperationFunctionMaker", OPS + "_AdditionFunctionMaker", OPS + "_MultiplicationFunctionMaker"
MDOF = "gemseo.core.mdo_functions.mdo_function.MDOFunction"
F1, F2, I1 = TArr("f", 1), TArr("f", 2), TArr("i", 1)


class TBuiltin(T):
    """A field holding a given numpy function object (``numpy.multiply``...)."""

    def __init__(self, name):
        self.bname = name
        self.name = f"Builtin[{name}]"

    def fresh(self, st, hint):
        return BuiltinV(self.bname)


class TConst(T):
    """A field holding a given Python constant (a flag fixed by ``__init__``)."""

    def __init__(self, value):
        self.value = value
        self.name = f"Const[{value!r}]"

    def fresh(self, st, hint):
        return self.value


# ---------------------------------------------------------------------------- operands
# vector-valued operand: f(x) in R^m (rank 1), Df(x) in R^{m x n};  number-valued operand: f(x) a float, Df(x) in R^n
def fun(name, vec):
    if vec == "row":  # number-valued function whose Jacobian is a (1, n) matrix
        return TFun(f"c10_{name}r", [F1], TReal), TFun(f"c10_D{name}r", [F1], F2)
    return TFun(f"c10_{name}", [F1], F1 if vec else TReal), TFun(f"c10_D{name}", [F1], F2 if vec else F1)


def kind(vec):
    return "r" if vec == "row" else ("v" if vec else "s")


def z3fun(name, vec):
    if vec == "row":
        return z3.Function(f"c10_{name}r", F1.sort(), z3.RealSort()), z3.Function(f"c10_D{name}r", F1.sort(), F2.sort())
    return (z3.Function(f"c10_{name}", F1.sort(), F1.sort() if vec else z3.RealSort()),
            z3.Function(f"c10_D{name}", F1.sort(), F2.sort() if vec else F1.sort()))


for _n in ("f", "g"):
    for _vec in (True, False, "row"):
        _fn, _jac = fun(_n, _vec)
        schema(f"{MDOF}#{_n}{kind(_vec)}", {"_func": _fn, "_jac": _jac})


class Operand:
    """Spec-side view of an operand at the point x: value(i), jac(i, j), m, n and the shape facts (preconditions)."""

    def __init__(self, name, vec, x):
        self.vec = vec
        xt = F1.dt.mk(x.obj.shape[0], x.obj.elems)
        f, df = z3fun(name, vec)
        self.fx, self.dfx = f(xt), df(xt)
        self.n = x.obj.shape[0]
        self.m = F1.dim(self.fx) if vec is True else z3.IntVal(1)

    def value(self, i):
        return F1.els(self.fx)[i] if self.vec is True else self.fx

    def jac(self, i, j):
        return z3.Select(F2.els(self.dfx), i, j) if self.vec else F1.els(self.dfx)[j]

    def shape_facts(self, label):
        if self.vec == "row":
            return [(f"{label}-jacobian-shape-(1,n)", z3.And(F2.dim(self.dfx, 0) == 1, F2.dim(self.dfx, 1) == self.n))]
        if self.vec:
            return [(f"{label}-jacobian-shape-(m,n)", z3.And(F2.dim(self.dfx, 0) == self.m, F2.dim(self.dfx, 1) == self.n)), (f"{label}-output-dimension>=1", self.m >= 1)]
        return [(f"{label}-gradient-shape-(n,)", F1.dim(self.dfx) == self.n)]


OPERATORS = {"add": ("numpy.add", "+", lambda a, b: a + b), "sub": ("numpy.subtract", "-", lambda a, b: a - b),
             "mul": ("numpy.multiply", "*", lambda a, b: a * b), "div": ("numpy.divide", "/", lambda a, b: a / b)}
# second operand kinds: function (vector / number valued), number, vector
SECOND = {"fun": None, "num": TReal, "vec": F1}


def maker_schema(cls, op, first_vec, second, second_vec=None):
    """Schema variant of a function maker: the flags are those __init__ computes from the type of the second operand
    (_operations.py lines 80-83: isinstance(second_operand, (Number, ndarray)) / isinstance(second_operand, cls))."""
    key = f"{cls}#{op}-{kind(first_vec)}-{second}{'' if second != 'fun' else kind(second_vec)}"
    fields = {
        "_first_operand": TObj(MDOF, schema_key=f"{MDOF}#f{kind(first_vec)}"),
        "_second_operand": TObj(MDOF, schema_key=f"{MDOF}#g{kind(second_vec)}") if second == "fun" else SECOND[second],
        "_second_operand_is_number": TConst(second != "fun"),
        "_second_operand_is_func": TConst(second == "fun"),
        "_operator": TBuiltin(OPERATORS[op][0]),
        "_operator_repr": TConst(OPERATORS[op][1]),
    }
    schema(key, fields)
    return key


def el(a, *i):
    return z3.Select(a.obj.elems, *i) if len(i) > 1 else a.obj.elems[i[0]]


def ln(a, j=0):
    return a.obj.shape[j]


def second_value(c, second, g, i):
    """i-th component of the second operand: g(x)_i, the number c, or the vector component c_i."""
    s2 = c.old.self._second_operand
    if second == "fun":
        return g.value(i)
    return s2 if second == "num" else el(s2, i)


class _Op(Contract):
    prop = ("C10",)
    numpy = "precise"
    frame_arrays = True  # no array existing at entry (input point, vector operand) is modified
    track_funv_arrays = True  # nor an array returned by an operand function
    params = {"input_value": F1}
    modifies = ()
    op = first_vec = second = second_vec = None

    def operands(self, c):
        x = c.old.input_value
        f = Operand("f", self.first_vec, x)
        g = Operand("g", self.second_vec, x) if self.second == "fun" else None
        return x, f, g

    def requires(self, c):
        x, f, g = self.operands(c)
        out = f.shape_facts("first")
        if g is not None:
            out += g.shape_facts("second")
            if self.first_vec is True and self.second_vec is True:
                out.append(("same-output-dimension", f.m == g.m))  # both built with dim = first_operand.dim
        if self.second == "vec":
            out.append(("vector-operand-has-the-output-dimension", ln(c.old.self._second_operand) == f.m))
        return out

    def tagged(self, clauses):
        """Clause labels carry the typed variant (reports group obligations by function and label)."""
        tag = f"{self.op},{KIND_NAME[kind(self.first_vec)]}-f,{self.second}"
        return [(f"{lab}[{tag}]", f) for lab, f in clauses]

    def operands_unchanged(self, c):
        out = []
        for k, (fname, ref, shape, elems) in enumerate(c.st.ghost.get("funv_arrays", [])):
            A = c.st.heap.get(ref.id)
            same = A is not None and A.elems.eq(elems)
            out.append((f"array-returned-by-{fname[4:]}-not-modified", z3.BoolVal(True) if same else (A.elems == elems if A is not None else z3.BoolVal(False))))
        return out


def _register_variants():
    out = []
    for op, (_, _, fop) in OPERATORS.items():
        for first_vec in (True, False):
            for second, second_vec in (("fun", True), ("fun", False), ("num", None), ("vec", None)):
                if second == "fun" and first_vec != second_vec:
                    continue  # mixed vector/number valued operands: not covered
                if second == "vec" and not first_vec:
                    continue
                out.append((op, fop, first_vec, second, second_vec))
    return out


VARIANTS = _register_variants()


KIND_NAME = {"v": "vector", "s": "number", "r": "number-with-(1,n)-jacobian"}


def vname(op, first_vec, second, second_vec):
    return f"{op}:{KIND_NAME[kind(first_vec)]}-valued-f,{ {'fun': 'function', 'num': 'number', 'vec': 'vector'}[second]}"


# ---------------------------------------------------------------------------- value of the operation
for _op, _fop, _fv, _sec, _sv in VARIANTS:
    class ComputeOperation(_Op):
        """(f op g)(x)_i = f(x)_i op g(x)_i (g a function, a number or a vector of the output dimension)."""

        targets = (MAKER + "._compute_operation",)
        variant = vname(_op, _fv, _sec, _sv)
        op, fop, first_vec, second, second_vec = _op, staticmethod(_fop), _fv, _sec, _sv
        self_schema = maker_schema(MAKER, _op, _fv, _sec, _sv)
        returns = F1 if _fv else TReal

        def ensures(self, c):
            x, f, g = self.operands(c)
            r = c.result
            i = z3.Int("i!co")
            if not self.first_vec:
                return self.tagged([("value", r == self.fop(f.value(0), second_value(c, self.second, g, 0)))] + self.operands_unchanged(c))
            return self.tagged([("size", ln(r) == f.m),
                                ("components", z3.ForAll([i], z3.Implies(z3.And(0 <= i, i < f.m), el(r, i) == self.fop(f.value(i), second_value(c, self.second, g, i)))))]
                               + self.operands_unchanged(c))

    register(ComputeOperation)


# ---------------------------------------------------------------------------- Jacobian of the sum / difference
def jac_clauses(self, c, f, entry):
    """Shape and entries of the returned Jacobian: (m, n) matrix for a vector-valued f, (n,) gradient for a number-valued one."""
    r = c.result
    i, j = z3.Int("i!jc"), z3.Int("j!jc")
    rank = getattr(getattr(r, "obj", None), "rank", None)
    if rank != (2 if self.first_vec else 1):
        return [("matrix-(m,n)" if self.first_vec else "gradient-(n,)", z3.BoolVal(False))]  # the returned array has the wrong number of dimensions
    if self.first_vec:
        return [("shape-(m,n)", z3.And(ln(r, 0) == f.m, ln(r, 1) == f.n)),
                ("entries", z3.ForAll([i, j], z3.Implies(z3.And(0 <= i, i < f.m, 0 <= j, j < f.n), el(r, i, j) == entry(i, j))))]
    return [("shape-(n,)", ln(r) == f.n),
            ("entries", z3.ForAll([j], z3.Implies(z3.And(0 <= j, j < f.n), el(r, j) == entry(z3.IntVal(0), j))))]


for _op, _fop, _fv, _sec, _sv in VARIANTS:
    if _op not in ("add", "sub"):
        continue

    class AdditionJacobian(_Op):
        """D(f +- g)_ij = Df_ij +- Dg_ij;  D(f +- c) = Df for a number or a vector c."""

        targets = (ADD + "._compute_operation_jacobian",)
        variant = vname(_op, _fv, _sec, _sv)
        op, fop, first_vec, second, second_vec = _op, staticmethod(_fop), _fv, _sec, _sv
        self_schema = maker_schema(ADD, _op, _fv, _sec, _sv)
        returns = F2 if _fv else F1

        def ensures(self, c):
            x, f, g = self.operands(c)
            entry = (lambda i, j: self.fop(f.jac(i, j), g.jac(i, j))) if g is not None else (lambda i, j: f.jac(i, j))
            return self.tagged(jac_clauses(self, c, f, entry) + self.operands_unchanged(c))

    register(AdditionJacobian)


# ---------------------------------------------------------------------------- Jacobian of the product / quotient
for _op, _fop, _fv, _sec, _sv in VARIANTS + [(o, OPERATORS[o][2], "row", "fun", "row") for o in ("mul", "div")]:
    if _op not in ("mul", "div"):
        continue

    class MultiplicationJacobian(_Op):
        """D(f g)_ij = Df_ij g_i + Dg_ij f_i;  D(f / g)_ij = (Df_ij g_i - Dg_ij f_i) / g_i^2;
        scaling by a number c or a vector c: D(c f)_ij = c_i Df_ij, D(f / c)_ij = Df_ij / c_i."""

        targets = (MUL + "._compute_operation_jacobian",)
        variant = vname(_op, _fv, _sec, _sv)
        op, fop, first_vec, second, second_vec = _op, staticmethod(_fop), _fv, _sec, _sv
        self_schema = maker_schema(MUL, _op, _fv, _sec, _sv)
        returns = F2 if _fv else F1

        def ensures(self, c):
            x, f, g = self.operands(c)
            if g is None:
                entry = lambda i, j: self.fop(f.jac(i, j), second_value(c, self.second, g, i))  # noqa: E731
            elif self.op == "mul":
                entry = lambda i, j: f.jac(i, j) * g.value(i) + g.jac(i, j) * f.value(i)  # noqa: E731
            else:
                entry = lambda i, j: (f.jac(i, j) * g.value(i) - g.jac(i, j) * f.value(i)) / (g.value(i) * g.value(i))  # noqa: E731
            return self.tagged(jac_clauses(self, c, f, entry) + self.operands_unchanged(c))

    register(MultiplicationJacobian)


# ============================================================================ constraint aggregations (algos/aggregation/core.py)
from pyvc.npmodel import np_exp, np_log  # noqa: E402  (uninterpreted exp / log)
from pyvc.plug_np_c10 import psum_axioms, psum_fn  # noqa: E402

AGG = "gemseo.algos.aggregation.core."
PSUM = psum_fn("f")
RSEQ = z3.ArraySort(z3.IntSort(), z3.RealSort())
_SERIES: list = []


def series(term, n):
    """sum_{k<n} term(k): the n-th prefix sum of the sequence k -> term(k) (recursive definition: psum_axioms)."""
    k = z3.Int("k!se")
    lam = z3.Lambda([k], term(k))
    _SERIES.append((lam, n))
    return PSUM(lam, n)


def _psum_apps(t):
    """Closed applications psum(seq, n) occurring in a term (also under binders)."""
    out, seen, stack = [], set(), [t]
    while stack:
        x = stack.pop()
        if x.get_id() in seen:
            continue
        seen.add(x.get_id())
        if z3.is_quantifier(x):
            stack.append(x.body())
            continue
        if z3.is_app(x):
            if x.decl().name() == "psum_f" and not _has_var(x):
                out.append((x.arg(0), x.arg(1)))
            stack.extend(x.children())
    return out


def _has_var(t):
    seen, stack = set(), [(t, 0)]
    while stack:
        x, depth = stack.pop()
        if (x.get_id(), depth) in seen:
            continue
        seen.add((x.get_id(), depth))
        if z3.is_var(x):
            if z3.get_var_index(x) >= depth:
                return True
        elif z3.is_quantifier(x):
            stack.append((x.body(), depth + x.num_vars()))
        else:
            stack.extend((ch, depth) for ch in x.children())
    return False


def congruence_instance(a, b, n):
    """Instance of PrefixSumLemmas.congruence: sequences that agree on [0, n) have the same n-th prefix sum."""
    k = z3.Int("k!ci")
    return z3.Implies(z3.And(n >= 0, z3.ForAll([k], z3.Implies(z3.And(0 <= k, k < n), a[k] == b[k]))), PSUM(a, n) == PSUM(b, n))


def _valid(c, f, extra=(), timeout_ms=1500):
    """Quick generation-time test (selects which lemma instances are offered; never used as a proof)."""
    sol = z3.Solver()
    sol.set("timeout", timeout_ms)
    for h in list(c.st.pc) + list(extra):
        sol.add(h)
    sol.add(z3.Not(f))
    return sol.check() == z3.unsat


def mentioning(vs, terms, body):
    """``forall vs. body`` with the given integer terms named by universally quantified variables (h == term => body): logically the
    same formula, but the terms occur in the query, so that the hypotheses triggered by them get instantiated."""
    hs = [z3.Int(f"h!mn{i}") for i in range(len(terms))]
    return z3.ForAll(list(vs) + hs, z3.Implies(z3.And(*[h == t for h, t in zip(hs, terms)]), body)) if terms else z3.ForAll(list(vs), body)


def sum_clauses(c, label, lhs, rhs_thunk, binders=(), rng=None, mention=None):
    """Clauses establishing ``lhs == rhs`` (for all ``binders`` in ``rng``) when both sides contain prefix sums.

    Each sum of the specification (innermost first) is paired with the sum computed by the code whose summands agree with it
    component-wise (pairing found by a quick solver test at generation time); the agreement is a clause of its own (one component
    identity per query), and the later clauses are stated under the matching instances of the congruence lemma (proved by induction in
    PrefixSumLemmas): equal summands on [0, n) => equal sums."""
    lhs = z3.simplify(lhs)
    del _SERIES[:]
    rhs = rhs_thunk()
    spec = list(_SERIES)
    code = _psum_apps(lhs)
    code.sort(key=lambda an: len(an[0].sexpr()))  # inner sums first
    k = z3.Int("k!ci")
    close = (lambda f: z3.ForAll(list(binders), z3.Implies(rng, f))) if binders else (lambda f: f)
    out, inst, eqs, used = [], [], [], set()
    for si, (b, n2) in enumerate(spec):
        for ci, (a, n) in enumerate(code):
            if ci in used or not (z3.simplify(n == n2).eq(z3.BoolVal(True)) or _valid(c, n == n2)):
                continue
            agree = z3.And(n == n2, mentioning([k], mention(k) if mention else [], z3.Implies(z3.And(0 <= k, k < n), a[k] == b[k])))
            if a.eq(b) or _valid(c, mentioning([], mention(k) if mention else [], z3.Implies(z3.And(0 <= k, k < n), a[k] == b[k])) if mention else
                                 z3.Implies(z3.And(0 <= k, k < n), a[k] == b[k]), [rng] + eqs if binders else eqs):
                used.add(ci)
                if not a.eq(b):
                    out.append((f"{label}:summands-of-sum-{si}", close(z3.Implies(z3.And(*inst), agree) if inst else agree)))
                    inst.append(z3.Implies(agree, PSUM(a, n) == PSUM(b, n2)))
                    eqs.append(PSUM(a, n) == PSUM(b, n2))
                break
    body = z3.Implies(z3.And(*inst), lhs == rhs) if inst else lhs == rhs
    return out + [(label, close(body))]


def psum_congruence(n):
    a, b = z3.Const("a!pc", RSEQ), z3.Const("b!pc", RSEQ)
    return z3.ForAll([a, b], congruence_instance(a, b, n))


def positive_instance(a, n):
    """Instance of PrefixSumLemmas.positive: a sum of n >= 1 positive terms is positive."""
    k = z3.Int("k!pi")
    return z3.Implies(z3.And(n >= 1, z3.ForAll([k], z3.Implies(z3.And(0 <= k, k < n), a[k] > 0))), PSUM(a, n) > 0)


def psum_positive(n):
    a = z3.Const("a!pp", RSEQ)
    return z3.ForAll([a], positive_instance(a, n))


def dominates_instance(a, n, w):
    """Instance of PrefixSumLemmas.dominates: a sum of positive terms is at least each of its terms."""
    k = z3.Int("k!di")
    return z3.Implies(z3.And(0 <= w, w < n, z3.ForAll([k], z3.Implies(z3.And(0 <= k, k < n), a[k] > 0))), PSUM(a, n) >= a[w])


def psum_dominates(n):
    a, w = z3.Const("a!pd", RSEQ), z3.Int("w!pd")
    return z3.ForAll([a, w], dominates_instance(a, n, w))


@register
class PrefixSumLemmas(Contract):
    """Inductions on n over the recursive definition of the prefix sums (base and step are closed formulas)."""

    targets = ()
    prop = ("C10",)
    lemma = True

    def lemmas(self):
        n = z3.Int("n!ind")
        defs = z3.And(*psum_axioms("f"))
        out = []
        for name, P, base in (("congruence", psum_congruence, 0), ("positive", psum_positive, 1), ("dominates", psum_dominates, 0)):
            out += [(f"{name}-base", z3.Implies(defs, P(z3.IntVal(base)))),
                    (f"{name}-step", z3.Implies(z3.And(defs, n >= base, P(n)), P(n + 1)))]
        return out


class _Agg(Contract):
    """Common part: v = orig_val in R^m (m >= 1), J = orig_jac in R^{m x n}, optional subset of distinct component indices, scale s.
    Frame: modifies = () - the arrays passed in are unchanged on return."""

    prop = ("C10",)
    numpy = "precise"
    frame_arrays = True
    modifies = ()
    frame_first = True  # the frame obligations do not need the postconditions (and a failing one then gets a counter-model)
    with_indices = False
    with_jac = False
    with_rho = False
    vector_scale = False  # scale: a number, or (variant) a vector with one factor per component
    psum_definition = False  # sums are reasoned about through proved consequences of their definition (PrefixSumLemmas), instantiated
    psum_positive_lemma = True  # ... by the numpy plugin for every sum it builds (positivity of a sum of positive terms)
    exp_positive = True  # numpy.exp(array): every element is > 0

    @classmethod
    def make_params(cls):
        p = {"orig_val": F1, "scale": F1 if cls.vector_scale else TReal}
        if cls.with_jac:
            p["orig_jac"] = F2
        if cls.with_rho:
            p["rho"] = TReal
        p["indices"] = TList(TInt) if cls.with_indices else TNone
        return p

    def requires(self, c):
        v = c.old.orig_val
        out = [("at-least-one-component", ln(v) >= 1)]
        if self.vector_scale:
            out.append(("one-scale-factor-per-component", ln(c.old.scale) == ln(v)))
        if self.with_jac:
            out.append(("jacobian-has-one-row-per-component", ln(c.old.orig_jac, 0) == ln(v)))
        if self.with_rho:
            out.append(("positive-aggregation-parameter", c.old.rho > 0))
        if self.with_indices:
            idx = c.old.indices
            a, b = z3.Int("a!ix"), z3.Int("b!ix")
            out += [("at-least-one-index", idx.n >= 1),
                    ("indices-in-range", z3.ForAll([a], z3.Implies(z3.And(0 <= a, a < idx.n), z3.And(0 <= idx.elems[a], idx.elems[a] < ln(v))))),
                    ("indices-distinct", z3.ForAll([a, b], z3.Implies(z3.And(0 <= a, a < b, b < idx.n), idx.elems[a] != idx.elems[b])))]
        return out

    # the aggregated components: k-th selected index and their number
    def sel(self, c):
        if self.with_indices:
            idx = c.old.indices
            return (lambda k: idx.elems[k]), idx.n
        return (lambda k: k), ln(c.old.orig_val)

    def s_at(self, c, i):
        return el(c.old.scale, i) if self.vector_scale else c.old.scale

    def finding_regions(self, c):
        if self.with_indices:
            return {}
        if self.vector_scale:
            i = z3.Int("i!fr")
            return {"all-components-and-scale-not-1": z3.Exists([i], z3.And(0 <= i, i < ln(c.old.scale), el(c.old.scale, i) != 1)),
                    "vector-scale-and-several-components": ln(c.old.orig_val) > 1}
        return {"all-components-and-scale-not-1": c.old.scale != 1}


def agg_variants(base, vector_scale=False):
    if vector_scale:
        cls = type(base.__name__ + "VectorScale", (base,), {"vector_scale": True, "variant": "all-components,vector-scale", "__doc__": base.__doc__})
        cls.params = cls.make_params()
        register(cls)
    for wi in (False, True):
        cls = type(base.__name__ + ("Subset" if wi else "All"), (base,), {"with_indices": wi, "variant": "subset-of-components" if wi else "all-components",
                                                                        "__doc__": base.__doc__})
        cls.params = cls.make_params()
        register(cls)


def positive_part(t):
    return z3.If(t > 0, z3.RealVal(1), z3.RealVal(0))  # heaviside(t, 0)


def attained(c, M, term, cnt):
    """M = term(k) for some k < cnt; the position recorded by the model of max(), if any, is offered as the witness."""
    w = next((w for r, w in c.st.ghost.get("amax_calls", []) if r.eq(M)), None)
    k = z3.Int("k!at")
    if w is not None:
        return z3.And(0 <= w, w < cnt, term(w) == M)
    return z3.Exists([k], z3.And(0 <= k, k < cnt, term(k) == M))


class SumSquare(_Agg):
    """sum_k s v_{I_k}^2."""

    targets = (AGG + "compute_sum_square_agg",)
    returns = TReal
    weight = staticmethod(lambda t: z3.RealVal(1))

    def ensures(self, c):
        v = c.old.orig_val
        at, cnt = self.sel(c)
        return sum_clauses(c, "value", c.result, lambda: series(lambda k: self.s_at(c, at(k)) * (el(v, at(k)) * el(v, at(k))) * self.weight(el(v, at(k))), cnt))


class SumPositiveSquare(SumSquare):
    """sum_k s v_{I_k}^2 over the positive components."""

    targets = (AGG + "compute_sum_positive_square_agg",)
    weight = staticmethod(positive_part)


class TotalSumSquareJac(_Agg):
    """d/dx sum_k s v_{I_k}(x)^2 = sum_k 2 s v_{I_k} J[I_k, :]."""

    targets = (AGG + "compute_total_sum_square_agg_jac",)
    returns = F1
    with_jac = True
    weight = staticmethod(lambda t: z3.RealVal(1))

    def ensures(self, c):
        v, J = c.old.orig_val, c.old.orig_jac
        at, cnt = self.sel(c)
        r = c.result
        j = z3.Int("j!ts")
        return [("size", ln(r) == ln(J, 1))] + sum_clauses(
            c, "entries", el(r, j), lambda: series(lambda k: 2 * self.s_at(c, at(k)) * el(v, at(k)) * self.weight(el(v, at(k))) * el(J, at(k), j), cnt), [j], z3.And(0 <= j, j < ln(J, 1)))


class TotalSumPositiveSquareJac(TotalSumSquareJac):
    """The same over the positive components."""

    targets = (AGG + "compute_total_sum_square_positive_agg_jac",)
    weight = staticmethod(positive_part)


class PartialSumSquareJac(_Agg):
    """d/dv sum_k s v_{I_k}^2: the (1, m) row with 2 s v_i at the aggregated components and 0 elsewhere."""

    targets = (AGG + "compute_partial_sum_square_agg_jac",)
    returns = F2
    weight = staticmethod(lambda t: z3.RealVal(1))

    def entry(self, c, i):
        return 2 * self.s_at(c, i) * el(c.old.orig_val, i) * self.weight(el(c.old.orig_val, i))

    def ensures(self, c):
        return row_clauses(self, c, lambda i: self.entry(c, i))


def row_clauses(self, c, entry, formula=True):
    """The (1, m) row whose i-th entry is entry(i) at the aggregated components and 0 elsewhere."""
    v = c.old.orig_val
    r = c.result
    i, k = z3.Int("i!ps"), z3.Int("k!ps2")
    out = [("shape-(1,m)", z3.And(ln(r, 0) == 1, ln(r, 1) == ln(v)))]
    if self.with_indices:
        idx = c.old.indices
        if formula:
            out += sum_clauses(c, "aggregated-components", el(r, 0, idx.elems[k]), lambda: entry(idx.elems[k]), [k], z3.And(0 <= k, k < idx.n))
        out += [("other-components-zero", z3.ForAll([i], z3.Implies(z3.And(0 <= i, i < ln(v), z3.ForAll([k], z3.Implies(z3.And(0 <= k, k < idx.n), idx.elems[k] != i))), el(r, 0, i) == 0)))]
    else:
        out += sum_clauses(c, "entries", el(r, 0, i), lambda: entry(i), [i], z3.And(0 <= i, i < ln(v)))
    return out


class PartialSumPositiveSquareJac(PartialSumSquareJac):
    """The same over the positive components."""

    targets = (AGG + "compute_partial_sum_positive_square_agg_jac",)
    weight = staticmethod(positive_part)


class MaxAgg(_Agg):
    """max_k s v_{I_k} as a one-element vector."""

    targets = (AGG + "compute_max_agg",)
    returns = F1

    def ensures(self, c):
        v = c.old.orig_val
        at, cnt = self.sel(c)
        r = c.result
        k = z3.Int("k!mx")
        sv = lambda k: self.s_at(c, at(k)) * el(v, at(k))  # noqa: E731
        return [("size-1", ln(r) == 1),
                ("dominates-every-component", z3.ForAll([k], z3.Implies(z3.And(0 <= k, k < cnt), sv(k) <= el(r, 0)))),
                ("is-one-of-the-components", attained(c, z3.simplify(el(r, 0)), sv, cnt))]


class MaxAggJac(_Agg):
    """The row s J[I_k, :] of a component k where s v_{I_k} is maximal."""

    targets = (AGG + "compute_max_agg_jac",)
    returns = F1
    with_jac = True

    def ensures(self, c):
        from pyvc.state import Undecided

        v, J = c.old.orig_val, c.old.orig_jac
        at, cnt = self.sel(c)
        r = c.result
        sv = lambda k: self.s_at(c, at(k)) * el(v, at(k))  # noqa: E731
        if "i_max" not in c.locals:
            raise Undecided("the local 'i_max' (witness of the maximal component) no longer exists")
        w = c.locals["i_max"]
        k, j = z3.Int("k!mj"), z3.Int("j!mj")
        return [("size", ln(r) == ln(J, 1)),
                ("witness-in-range", z3.And(0 <= w, w < cnt)),
                ("witness-is-maximal", z3.ForAll([k], z3.Implies(z3.And(0 <= k, k < cnt), sv(k) <= sv(w)))),
                ("row-of-the-maximal-component", z3.ForAll([j], z3.Implies(z3.And(0 <= j, j < ln(J, 1)), el(r, j) == self.s_at(c, at(w)) * el(J, at(w), j))))]


for _b in (SumSquare, SumPositiveSquare, TotalSumSquareJac, TotalSumPositiveSquareJac, PartialSumSquareJac, PartialSumPositiveSquareJac, MaxAgg, MaxAggJac):
    agg_variants(_b, vector_scale=_b in (SumSquare, TotalSumSquareJac, PartialSumSquareJac, MaxAgg, MaxAggJac))


# ---------------------------------------------------------------------------- smooth maxima (KS, IKS)
class _Smooth(_Agg):
    """Common part of the KS / IKS functions: with M = max_k s v_{I_k} and e_k = exp(rho (s v_{I_k} + 1 - M)) (the shift by M only
    conditions the floating-point evaluation), D = sum_k e_k, N = sum_k s v_{I_k} e_k."""

    with_rho = True

    def shifted(self, c):
        from pyvc.state import Undecided

        v, s, rho = c.old.orig_val, c.old.scale, c.old.rho
        at, cnt = self.sel(c)
        calls = c.st.ghost.get("amax_calls", [])
        if len(calls) != 1:
            raise Undecided("the function no longer computes exactly one maximum (the shift of the exponentials)")
        M = calls[0][0]
        sv = lambda k: self.s_at(c, at(k)) * el(v, at(k))  # noqa: E731
        e = lambda k: np_exp(rho * (sv(k) + 1 - M))  # noqa: E731
        k = z3.Int("k!sm")
        is_max = [("shift-dominates-every-component", z3.ForAll([k], z3.Implies(z3.And(0 <= k, k < cnt), sv(k) <= M))),
                  ("shift-is-one-of-the-components", attained(c, M, sv, cnt))]
        return sv, e, M, cnt, rho, is_max


class UpperBoundKS(_Smooth):
    """KS_upper(v) = M + log(sum_k exp(rho (s v_{I_k} + 1 - M))) / rho - 1   (= log(sum_k exp(rho s v_{I_k})) / rho)."""

    targets = (AGG + "compute_upper_bound_ks_agg",)
    returns = TReal

    def ensures(self, c):
        sv, e, M, cnt, rho, is_max = self.shifted(c)
        return is_max + sum_clauses(c, "value", c.result, lambda: M + (1 / rho) * np_log(series(e, cnt)) - 1)


class LowerBoundKS(_Smooth):
    """KS_lower(v) = KS_upper(v) - log(m) / rho, m = len(v)."""

    targets = (AGG + "compute_lower_bound_ks_agg",)
    returns = TReal

    def ensures(self, c):
        sv, e, M, cnt, rho, is_max = self.shifted(c)
        m = z3.ToReal(ln(c.old.orig_val))
        return is_max + sum_clauses(c, "value", c.result, lambda: M + (1 / rho) * np_log(series(e, cnt)) - 1 - np_log(m) / rho)


class TotalKSJac(_Smooth):
    """d KS / dx = sum_k (e_k / D) s J[I_k, :] (softmax-weighted rows)."""

    targets = (AGG + "compute_total_ks_agg_jac",)
    returns = F1
    with_jac = True

    def ensures(self, c):
        sv, e, M, cnt, rho, is_max = self.shifted(c)
        J, s = c.old.orig_jac, c.old.scale
        at, _ = self.sel(c)
        r = c.result
        j = z3.Int("j!tk")
        if self.with_indices:  # formula stated for the all-components variant only (proof not stable enough with the index indirection)
            return is_max + [("size", ln(r) == ln(J, 1))]
        return is_max + [("size", ln(r) == ln(J, 1))] + sum_clauses(
            c, "entries", el(r, j), lambda: series(lambda k: (e(k) / series(e, cnt)) * (self.s_at(c, at(k)) * el(J, at(k), j)), cnt), [j], z3.And(0 <= j, j < ln(J, 1)))


class PartialKSJac(_Smooth):
    """d KS / dv: the (1, m) row with s e_k / D at the aggregated components and 0 elsewhere."""

    targets = (AGG + "compute_partial_ks_agg_jac",)
    returns = F2

    def ensures(self, c):
        sv, e, M, cnt, rho, is_max = self.shifted(c)
        s = c.old.scale
        v = c.old.orig_val
        ei = lambda i: np_exp(rho * (s * el(v, i) + 1 - M))  # noqa: E731
        return is_max + row_clauses(self, c, lambda i: (ei(i) / series(e, cnt)) * s)


class IKS(_Smooth):
    """IKS(v) = N / D = sum_k s v_{I_k} e_k / sum_k e_k."""

    targets = (AGG + "compute_iks_agg",)
    returns = TReal

    def ensures(self, c):
        sv, e, M, cnt, rho, is_max = self.shifted(c)
        return is_max + sum_clauses(c, "value", c.result, lambda: series(lambda k: sv(k) * e(k), cnt) / series(e, cnt))


class TotalIKSJac(_Smooth):
    """d IKS / dx = (-D' / D^2) N + N' / D with N' = sum_k (e_k + rho e_k s v_k) s J[I_k, :], D' = sum_k rho e_k s J[I_k, :] (quotient rule)."""

    targets = (AGG + "compute_total_iks_agg_jac",)
    returns = F1
    with_jac = True

    def ensures(self, c):
        sv, e, M, cnt, rho, is_max = self.shifted(c)
        J, s = c.old.orig_jac, c.old.scale
        at, _ = self.sel(c)
        r = c.result
        j = z3.Int("j!ti")

        def rhs():
            sj = lambda k: s * el(J, at(k), j)  # noqa: E731
            N, D = series(lambda k: sv(k) * e(k), cnt), series(e, cnt)
            dN = series(lambda k: e(k) * sj(k), cnt) + series(lambda k: (e(k) * sv(k)) * (rho * sj(k)), cnt)
            dD = series(lambda k: e(k) * (rho * sj(k)), cnt)
            return (-dD / (D * D)) * N + dN / D

        if self.with_indices:  # formula stated for the all-components variant only
            return is_max + [("size", ln(r) == ln(J, 1))]
        return is_max + [("size", ln(r) == ln(J, 1))] + sum_clauses(c, "entries", el(r, j), rhs, [j], z3.And(0 <= j, j < ln(J, 1)))


class PartialIKSJac(_Smooth):
    """d IKS / dv: the (1, m) row with s ((-rho e_i / D^2) N + (e_i + rho e_i s v_i) / D) at the aggregated components, 0 elsewhere."""

    targets = (AGG + "compute_partial_iks_agg_jac",)
    returns = F2

    def ensures(self, c):
        sv, e, M, cnt, rho, is_max = self.shifted(c)
        s, v = c.old.scale, c.old.orig_val
        ei = lambda i: np_exp(rho * (s * el(v, i) + 1 - M))  # noqa: E731

        def entry(i):
            N, D = series(lambda k: sv(k) * e(k), cnt), series(e, cnt)
            return ((-(rho * ei(i)) / (D * D)) * N + (ei(i) + rho * (ei(i) * (s * el(v, i)))) / D) * s

        return is_max + row_clauses(self, c, entry, formula=not self.with_indices)  # formula stated for the all-components variant only


for _b in (UpperBoundKS, LowerBoundKS, TotalKSJac, PartialKSJac, IKS, TotalIKSJac, PartialIKSJac):
    agg_variants(_b)  # (a vector scale is only put under contract for the sum-square and maximum aggregations)


# ============================================================================ negation helpers of MDOFunction, linear functions
LIN = "gemseo.core.mdo_functions.mdo_linear_function.MDOLinearFunction"
for _vec in (True, False):
    _fn, _jac = fun("f", _vec)
    schema(f"{MDOF}#eval-{'v' if _vec else 's'}", {"_func": _fn, "_jac": _jac, "last_eval": F1 if _vec else TReal, "dim": TInt,
                                                  "force_real": TBool if _vec else TConst(False)})
schema(LIN + "#num", {"_coefficients": F2, "_value_at_zero": F1})


def funv_arrays_unchanged(c):
    out = []
    for fname, ref, shape, elems in c.st.ghost.get("funv_arrays", []):
        A = c.st.heap.get(ref.id)
        same = A is not None and A.elems.eq(elems)
        out.append((f"array-returned-by-{fname[4:]}-not-modified", z3.BoolVal(True) if same else (A.elems == elems if A is not None else z3.BoolVal(False))))
    return out


class _Neg(Contract):
    prop = ("C10",)
    numpy = "precise"
    frame_arrays = True
    track_funv_arrays = True
    params = {"x_vect": F1}
    vec = True

    def operand(self, c):
        return Operand("f", self.vec, c.old.x_vect)


for _vec in (True, False):
    class MinPt(_Neg):
        """(-f)(x)_i = -f(x)_i; the evaluation records f(x) as the last value and infers the output dimension when it is unknown,
        nothing else of the operand changes."""

        targets = (MDOF + "._min_pt",)
        variant = f"{'vector' if _vec else 'number'}-valued-f"
        vec = _vec
        self_schema = f"{MDOF}#eval-{'v' if _vec else 's'}"
        returns = F1 if _vec else TReal
        modifies = ("self",)

        def requires(self, c):
            return self.operand(c).shape_facts("operand") + [("dimension-is-unknown-or-the-output-size", z3.Or(c.old.self.dim == 0, c.old.self.dim == self.operand(c).m))]

        def ensures(self, c):
            f = self.operand(c)
            r = c.result
            i = z3.Int("i!mp")
            o, n = c.old.self, c.new.self
            out = [("operand-callables-kept", z3.BoolVal(n._func is o._func and n._jac is o._jac)),
                   ("dimension", n.dim == f.m), ("force_real-kept", n.force_real == o.force_real if self.vec else z3.BoolVal(n.force_real is o.force_real))]
            if self.vec:
                out += [("size", ln(r) == f.m), ("components", z3.ForAll([i], z3.Implies(z3.And(0 <= i, i < f.m), el(r, i) == -f.value(i)))),
                        ("last-value-recorded", z3.And(ln(n.last_eval) == f.m, z3.ForAll([i], z3.Implies(z3.And(0 <= i, i < f.m), el(n.last_eval, i) == f.value(i)))))]
            else:
                out += [("value", r == -f.value(0)), ("last-value-recorded", n.last_eval == f.value(0))]
            return out + funv_arrays_unchanged(c)

    register(MinPt)

    class MinJac(_Neg):
        """D(-f)_ij = -Df_ij."""

        targets = (MDOF + "._min_jac",)
        variant = f"{'vector' if _vec else 'number'}-valued-f"
        vec = first_vec = _vec
        self_schema = f"{MDOF}#eval-{'v' if _vec else 's'}"
        returns = F2 if _vec else F1
        modifies = ()

        def requires(self, c):
            return self.operand(c).shape_facts("operand")

        def ensures(self, c):
            f = self.operand(c)
            return jac_clauses(self, c, f, lambda i, j: -f.jac(i, j)) + funv_arrays_unchanged(c)

    register(MinJac)


class _Lin(Contract):
    prop = ("C10",)
    numpy = "precise"
    frame_arrays = True
    self_schema = LIN + "#num"
    modifies = ()
    psum_definition = False
    inline_ok = True  # callers (MDOLinearFunction.normalize, verified in contracts/c01_preprocessing.py) keep inlining the real body

    def requires(self, c):
        s = c.old.self
        # coefficients setter: a 2-dimensional array; value_at_zero setter: reshaped to the output dimension
        return [("value-at-zero-has-the-output-dimension", ln(s._value_at_zero) == ln(s._coefficients, 0)), ("at-least-one-output", ln(s._coefficients, 0) >= 1)]


@register
class LinearValue(_Lin):
    """(A x + b)_i = sum_k A_ik x_k + b_i; a number when there is one output."""

    targets = (LIN + "._func_to_wrap",)
    params = {"x_vect": F1}

    def requires(self, c):
        return super().requires(c) + [("input-dimension", ln(c.old.x_vect) == ln(c.old.self._coefficients, 1))]

    def ensures(self, c):
        from pyvc.values import SV

        s, x = c.old.self, c.old.x_vect
        A, b = s._coefficients, s._value_at_zero
        m, n = ln(A, 0), ln(A, 1)
        i = z3.Int("i!lv")
        comp = lambda i: (lambda: series(lambda k: el(A, i, k) * el(x, k), n) + el(b, i))  # noqa: E731
        if isinstance(c.result_value, SV):
            return [("one-output", m == 1)] + sum_clauses(c, "value", c.result, comp(z3.IntVal(0)))
        r = c.result
        return [("several-outputs", m != 1), ("size", ln(r) == m)] + sum_clauses(c, "components", el(r, i), comp(i), [i], z3.And(0 <= i, i < m))


@register
class LinearJacobian(_Lin):
    """D(A x + b) = A: the row A[0, :] as a gradient when there is one output, the matrix A otherwise."""

    targets = (LIN + "._jac_to_wrap",)
    params = {"_": F1}

    def ensures(self, c):
        A = c.old.self._coefficients
        r = c.result
        m, n = ln(A, 0), ln(A, 1)
        i, j = z3.Int("i!lj"), z3.Int("j!lj")
        if r.obj.rank == 1:
            return [("one-output", m == 1), ("size", ln(r) == n), ("entries", z3.ForAll([j], z3.Implies(z3.And(0 <= j, j < n), el(r, j) == el(A, 0, j))))]
        return [("several-outputs", m != 1), ("shape", z3.And(ln(r, 0) == m, ln(r, 1) == n)),
                ("entries", z3.ForAll([i, j], z3.Implies(z3.And(0 <= i, i < m, 0 <= j, j < n), el(r, i, j) == el(A, i, j))))]


# ============================================================================ bound side of the upper KS function
@register
class KSUpperBoundLemma(Contract):
    """KS_upper(v) >= max_k s v_{I_k}: a consequence of the postconditions of compute_upper_bound_ks_agg (value formula, the shift M is the
    maximum and is attained at a position w, so that e_w = exp(rho)), of `a sum of positive terms is at least each term` (PrefixSumLemmas.dominates)
    and of two textbook facts on the uninterpreted exp / log, assumed here: log(exp(t)) = t and log is non-decreasing on the positive reals."""

    targets = ()
    prop = ("C10",)
    lemma = True

    def lemmas(self):
        e = z3.Const("e!ks", RSEQ)
        cnt, w, k = z3.Int("cnt!ks"), z3.Int("w!ks"), z3.Int("k!ks")
        M, rho, KS, x, y, t = z3.Reals("M!ks rho!ks KS!ks x!ks y!ks t!ks")
        S = PSUM(e, cnt)
        post = z3.And(rho > 0, 0 <= w, w < cnt,
                      z3.ForAll([k], z3.Implies(z3.And(0 <= k, k < cnt), e[k] > 0)),  # exp is positive
                      e[w] == np_exp(rho * (M + 1 - M)),  # the maximum is attained at w
                      KS == M + (1 / rho) * np_log(S) - 1)  # post:value
        explog = z3.And(z3.ForAll([t], np_log(np_exp(t)) == t, patterns=[np_exp(t)]),
                        z3.ForAll([x, y], z3.Implies(z3.And(0 < x, x <= y), np_log(x) <= np_log(y)), patterns=[z3.MultiPattern(np_log(x), np_log(y))]))
        return [("upper-KS-dominates-the-maximum", z3.Implies(z3.And(post, explog, dominates_instance(e, cnt, w)), KS >= M))]
