"""C16 - complex step: gradient[k] = Im F(x + P[:, k]) / h_k, complex arrays being (re, im) pairs of real arrays.

The perturbation matrix P (what ``ComplexStep._generate_perturbations`` builds) has, in column k, the single non-zero entry
``1j * h_k`` in row ``row(k)`` (= the k-th differentiated component), h_k != 0.

``_compute_grad`` divides by ``input_perturbations[:, k].imag.sum()``: the sum of a column with exactly one non-zero entry is that
entry (lemma proved by induction below; the one-hot shape of the columns is the verified postcondition of ``_generate_perturbations``).

History: until fde9871 the code divided by the DIAGONAL entry ``input_perturbations[k, k].imag``, which is zero unless x_indices is the
leading prefix 0..n-1 (``f_gradient(array([1., 2., 3.]), x_indices=[1, 2])`` returned ``inf``); found with this contract, repaired.
"""
from __future__ import annotations

import z3

from contracts.c16_derivatives import F1, column, ln
from pyvc import contract as C
from pyvc.contract import Contract, LoopSpec, register, schema
from pyvc.plug_c16 import TCArr, complex_fun
from pyvc.values import TBool, TFun, TList, TNone, TReal

CS = "gemseo.utils.derivatives.complex_step.ComplexStep"
FPC = TFun("f_pointer_c", [F1], F1)
FRE, FIM = complex_fun("f_pointer_c", F1)
schema(CS + "#nods", {"f_pointer": FPC, "_step": TReal, "_normalize": TBool, "_parallel": TBool, "_design_space": TNone})

row = z3.Function("cs_row", z3.IntSort(), z3.IntSort())  # the component differentiated by perturbation k
h = z3.Function("cs_h", z3.IntSort(), z3.RealSort())  # its (imaginary) step


def _parts(c):
    P = c.old.input_perturbations
    return C.View(c._old_heap, P.re, c.st), C.View(c._old_heap, P.im, c.st)


def _shifted(x, Pre, k):
    """Real part of x + P[:, k]."""
    i = z3.Int("i!np0")
    return F1.dt.mk(x.obj.shape[0], z3.Lambda([i], x.obj.elems[i] + z3.Select(Pre.obj.elems, i, k)))


def cs_quotient_ok(gj, x, Pre, Pim, k):
    """gj = Im F(x + P[:, k]) / h(k)."""
    i = z3.Int("i!q")
    fim = FIM(_shifted(x, Pre, k), column(Pim, k))
    m = F1.dim(fim)
    return z3.And(F1.dim(gj) == m, z3.ForAll([i], z3.Implies(z3.And(0 <= i, i < m), F1.els(gj)[i] == F1.els(fim)[i] / h(k))))


def _cs_inv(c, k):
    x = c.old.input_values
    Pre, Pim = _parts(c)
    g = c.locals["gradient"]
    j = z3.Int("j!gi")
    return [("count", g.n == k),
            ("quotients", z3.ForAll([j], z3.Implies(z3.And(0 <= j, j < k), cs_quotient_ok(g.elems[j], x, Pre, Pim, j))))]


@register
class ComplexStepComputeGrad(Contract):
    targets = (CS + "._compute_grad",)
    prop = ("C16",)
    self_schema = CS + "#nods"
    numpy = "precise"
    c16 = True
    params = {"input_values": F1, "input_perturbations": TCArr(2), "step": TReal}
    returns = TList(F1)
    loops = {0: LoopSpec(anchor="range(n_perturbations)", modifies=("gradient",), local_types={"gradient": TList(F1)}, inv=_cs_inv)}

    def requires(self, c):
        x = c.old.input_values
        Pre, Pim = _parts(c)
        d, n = ln(x), ln(Pre, 1)
        i, k = z3.Int("i!rq"), z3.Int("k!rq")
        a, b = z3.Const("a!fm", F1.sort()), z3.Const("b!fm", F1.sort())
        return [
            ("perturbation-shape", z3.And(ln(Pre, 0) == d, n <= d)),  # one column per differentiated component, pairwise distinct: at most d
            # what _generate_perturbations builds: column k = 1j * h(k) * e_row(k), h(k) != 0
            ("differentiated-components", z3.ForAll([k], z3.Implies(z3.And(0 <= k, k < n), z3.And(0 <= row(k), row(k) < d, h(k) != 0)))),
            ("perturbations-are-imaginary", z3.ForAll([i, k], z3.Implies(z3.And(0 <= i, i < d, 0 <= k, k < n), z3.Select(Pre.obj.elems, i, k) == 0))),
            ("one-imaginary-step-per-column", z3.ForAll([i, k], z3.Implies(z3.And(0 <= i, i < d, 0 <= k, k < n),
                                                                            z3.Select(Pim.obj.elems, i, k) == z3.If(i == row(k), h(k), z3.RealVal(0))))),
            ("output-dimension-is-fixed", z3.ForAll([a, b], z3.And(F1.dim(FIM(a, b)) == z3.Int("m_out"), F1.dim(FRE(a, b)) == z3.Int("m_out"), z3.Int("m_out") >= 0))),
        ]

    @staticmethod
    def one_hot_sum(env):
        """The summed vector input_perturbations[:, k].imag has its single non-zero entry h(k) at row(k) (see the preconditions)."""
        k = env["perturbation_index"].term
        return row(k), h(k)

    def ensures(self, c):
        x = c.old.input_values
        Pre, Pim = _parts(c)
        g = c.result
        j = z3.Int("j!cg")
        return [("one-row-per-perturbation", g.n == ln(Pre, 1)),
                ("imaginary-part-over-the-step-used", z3.ForAll([j], z3.Implies(z3.And(0 <= j, j < g.n), cs_quotient_ok(g.elems[j], x, Pre, Pim, j))))]



from pyvc.values import TDict, TStr, TVal  # noqa: E402

schema(CS + "#par", {"f_pointer": FPC, "_step": TReal, "_normalize": TBool, "_parallel": TBool, "_design_space": TNone,
                     "_parallel_args": TDict(TStr, TVal), "_function_kwargs": TDict(TStr, TVal)})


@register
class ComplexStepComputeParallelGrad(ComplexStepComputeGrad):
    """Same quotients as the sequential computation (C13), the outputs being taken positionally from the parallel execution
    (summary of the C13 contract of CallableParallelExecution.execute, pyvc/plug_c16.py; the task is the real _wrap_function)."""

    targets = (CS + "._compute_parallel_grad",)
    prop = ("C16", "C13")
    self_schema = CS + "#par"
    modifies = ("self",)  # self._function_kwargs
    loops = {}


# ---------------------------------------------------------------------------- the perturbation matrix
from contracts.c16_derivatives import el, idx_ok  # noqa: E402
from pyvc.npmodel import TArr  # noqa: E402
from pyvc.values import TInt, TTuple  # noqa: E402

F2 = TArr("f", 2)


@register
class ComplexStepGeneratePerturbations(Contract):
    """Column k of the perturbation matrix is 1j * h_k * e_{I_k} with h_k = step * (x[I_k] if x[I_k] != 0 else 1): purely imaginary,
    one non-zero entry per column, in the row of the differentiated component (the precondition of ``_compute_grad`` above with
    row(k) = I_k, h(k) = h_k, non-zero as soon as the step is)."""

    targets = (CS + "._generate_perturbations",)
    prop = ("C16",)
    self_schema = CS + "#nods"
    numpy = "precise"
    c16 = True
    params = {"input_values": F1, "input_indices": TList(TInt), "step": TReal}
    returns = None

    def requires(self, c):
        return idx_ok(c.old.input_indices, ln(c.old.input_values))

    def ensures(self, c):
        x, idx, step = c.old.input_values, c.old.input_indices, c.old.step
        P, s = c.result_value
        Pre, Pim = C.View(c._new_heap, P.re, c.st), C.View(c._new_heap, P.im, c.st)
        i, k = z3.Int("i!gp"), z3.Int("k!gp")
        xk = el(x, idx.elems[k])
        hk = z3.If(xk == 0, z3.RealVal(1), xk) * step
        rng = z3.And(0 <= i, i < ln(x), 0 <= k, k < idx.n)
        return [
            ("shape", z3.And(ln(Pre, 0) == ln(x), ln(Pre, 1) == idx.n, ln(Pim, 0) == ln(x), ln(Pim, 1) == idx.n)),
            ("purely-imaginary", z3.ForAll([i, k], z3.Implies(rng, el(Pre, i, k) == 0))),
            ("columns", z3.ForAll([i, k], z3.Implies(rng, el(Pim, i, k) == z3.If(i == idx.elems[k], hk, z3.RealVal(0))))),
            ("non-zero-steps", z3.ForAll([k], z3.Implies(z3.And(0 <= k, k < idx.n, step != 0), hk != 0))),
            ("step-returned", s.term == step),
        ]


@register
class OneHotSumLemmas(Contract):
    """Induction (base + step) for: if a[i] == (c if i == r else 0) for 0 <= i < m then psum(a, m) == (c if 0 <= r < m else 0),
    psum being the prefix-sum function of the numpy model with its recursive definition."""

    targets = ()
    prop = ("C16",)
    lemma = True

    def lemmas(self):
        A = z3.ArraySort(z3.IntSort(), z3.RealSort())
        psum = z3.Function("psum_f", A, z3.IntSort(), z3.RealSort())
        a, b = z3.Const("a", A), z3.Const("b!ps", A)
        r, m, t, i = z3.Int("r"), z3.Int("m"), z3.Int("t!ps"), z3.Int("i!oh")
        cv = z3.Real("c")
        definition = z3.And(z3.ForAll([b], psum(b, 0) == 0), z3.ForAll([b, t], z3.Implies(t >= 0, psum(b, t + 1) == psum(b, t) + b[t]), patterns=[psum(b, t + 1)]))
        onehot = lambda n: z3.ForAll([i], z3.Implies(z3.And(0 <= i, i < n), a[i] == z3.If(i == r, cv, z3.RealVal(0))))  # noqa: E731
        claim = lambda n: psum(a, n) == z3.If(z3.And(0 <= r, r < n), cv, z3.RealVal(0))  # noqa: E731
        return [
            ("one-hot-sum:base", z3.Implies(definition, claim(0))),
            ("one-hot-sum:step", z3.Implies(z3.And(definition, m >= 0, onehot(m + 1), z3.Implies(onehot(m), claim(m))), claim(m + 1))),
        ]
