"""C16 - complex step: gradient[k] = Im F(x + P[:, k]) / h_k, complex arrays being (re, im) pairs of real arrays.

The perturbation matrix P (what ``ComplexStep._generate_perturbations`` builds) has, in column k, the single non-zero entry
``1j * h_k`` in row ``row(k)`` (= the k-th differentiated component), h_k != 0.

KNOWN DEFECT (reported, see `finding_regions`): ``ComplexStep._compute_grad`` divides by ``input_perturbations[k, k].imag`` - the
DIAGONAL entry - instead of the non-zero entry ``input_perturbations[row(k), k].imag`` of column k.  The two coincide only when
``row(k) == k`` for all k, i.e. when x_indices is the leading prefix 0..n-1 in order; otherwise the division is by zero
(numpy: inf / nan with a RuntimeWarning).  Natively: ``ComplexStep(f, step=1e-30).f_gradient(array([1., 2., 3.]), x_indices=[1, 2])``
returns a matrix of ``inf``.
"""
from __future__ import annotations

import z3

from contracts.c16_derivatives import F1, column, ln
from pyvc import contract as C
from pyvc.contract import Contract, LoopSpec, register, schema
from pyvc.plug_c16 import TCArr, complex_fun
from pyvc.values import TBool, TFun, TList, TNone, TReal

CS = "gemseo.utils.derivatives.complex_step.ComplexStep"
FPC = TFun("f_pointer_c", [F1], F1)
FRE, FIM = complex_fun("f_pointer_c", F1)
schema(CS + "#nods", {"f_pointer": FPC, "_step": TReal, "_normalize": TBool, "_parallel": TBool, "_design_space": TNone})

row = z3.Function("cs_row", z3.IntSort(), z3.IntSort())  # the component differentiated by perturbation k
h = z3.Function("cs_h", z3.IntSort(), z3.RealSort())  # its (imaginary) step


def _parts(c):
    P = c.old.input_perturbations
    return C.View(c._old_heap, P.re, c.st), C.View(c._old_heap, P.im, c.st)


def _shifted(x, Pre, k):
    """Real part of x + P[:, k]."""
    i = z3.Int("i!np0")
    return F1.dt.mk(x.obj.shape[0], z3.Lambda([i], x.obj.elems[i] + z3.Select(Pre.obj.elems, i, k)))


def cs_quotient_ok(gj, x, Pre, Pim, k):
    """gj = Im F(x + P[:, k]) / h(k)."""
    i = z3.Int("i!q")
    fim = FIM(_shifted(x, Pre, k), column(Pim, k))
    m = F1.dim(fim)
    return z3.And(F1.dim(gj) == m, z3.ForAll([i], z3.Implies(z3.And(0 <= i, i < m), F1.els(gj)[i] == F1.els(fim)[i] / h(k))))


def _cs_inv(c, k):
    x = c.old.input_values
    Pre, Pim = _parts(c)
    g = c.locals["gradient"]
    j = z3.Int("j!gi")
    return [("count", g.n == k),
            ("quotients", z3.ForAll([j], z3.Implies(z3.And(0 <= j, j < k), cs_quotient_ok(g.elems[j], x, Pre, Pim, j))))]


@register
class ComplexStepComputeGrad(Contract):
    targets = (CS + "._compute_grad",)
    prop = ("C16",)
    self_schema = CS + "#nods"
    numpy = "precise"
    c16 = True
    params = {"input_values": F1, "input_perturbations": TCArr(2), "step": TReal}
    returns = TList(F1)
    loops = {0: LoopSpec(anchor="range(n_perturbations)", modifies=("gradient",), local_types={"gradient": TList(F1)}, inv=_cs_inv)}

    def requires(self, c):
        x = c.old.input_values
        Pre, Pim = _parts(c)
        d, n = ln(x), ln(Pre, 1)
        i, k = z3.Int("i!rq"), z3.Int("k!rq")
        a, b = z3.Const("a!fm", F1.sort()), z3.Const("b!fm", F1.sort())
        return [
            ("perturbation-shape", z3.And(ln(Pre, 0) == d, n <= d)),  # at most d pairwise distinct components
            # what _generate_perturbations builds: column k = 1j * h(k) * e_row(k), h(k) != 0
            ("differentiated-components", z3.ForAll([k], z3.Implies(z3.And(0 <= k, k < n), z3.And(0 <= row(k), row(k) < d, h(k) != 0)))),
            ("perturbations-are-imaginary", z3.ForAll([i, k], z3.Implies(z3.And(0 <= i, i < d, 0 <= k, k < n), z3.Select(Pre.obj.elems, i, k) == 0))),
            ("one-imaginary-step-per-column", z3.ForAll([i, k], z3.Implies(z3.And(0 <= i, i < d, 0 <= k, k < n),
                                                                            z3.Select(Pim.obj.elems, i, k) == z3.If(i == row(k), h(k), z3.RealVal(0))))),
            ("output-dimension-is-fixed", z3.ForAll([a, b], z3.And(F1.dim(FIM(a, b)) == z3.Int("m_out"), F1.dim(FRE(a, b)) == z3.Int("m_out"), z3.Int("m_out") >= 0))),
        ]

    def finding_regions(self, c):
        Pre, _ = _parts(c)
        k = z3.Int("k!fr")
        return {"differentiated-components-are-not-the-leading-prefix": z3.Exists([k], z3.And(0 <= k, k < ln(Pre, 1), row(k) != k))}

    def ensures(self, c):
        x = c.old.input_values
        Pre, Pim = _parts(c)
        g = c.result
        j = z3.Int("j!cg")
        return [("one-row-per-perturbation", g.n == ln(Pre, 1)),
                ("imaginary-part-over-the-step-used", z3.ForAll([j], z3.Implies(z3.And(0 <= j, j < g.n), cs_quotient_ok(g.elems[j], x, Pre, Pim, j))))]


# ---------------------------------------------------------------------------- the perturbation matrix
from contracts.c16_derivatives import el, idx_ok  # noqa: E402
from pyvc.npmodel import TArr  # noqa: E402
from pyvc.values import TInt, TTuple  # noqa: E402

F2 = TArr("f", 2)


@register
class ComplexStepGeneratePerturbations(Contract):
    """Column k of the perturbation matrix is 1j * h_k * e_{I_k} with h_k = step * (x[I_k] if x[I_k] != 0 else 1): purely imaginary,
    one non-zero entry per column, in the row of the differentiated component (the precondition of ``_compute_grad`` above with
    row(k) = I_k, h(k) = h_k, non-zero as soon as the step is)."""

    targets = (CS + "._generate_perturbations",)
    prop = ("C16",)
    self_schema = CS + "#nods"
    numpy = "precise"
    c16 = True
    params = {"input_values": F1, "input_indices": TList(TInt), "step": TReal}
    returns = None

    def requires(self, c):
        return idx_ok(c.old.input_indices, ln(c.old.input_values))

    def ensures(self, c):
        x, idx, step = c.old.input_values, c.old.input_indices, c.old.step
        P, s = c.result_value
        Pre, Pim = C.View(c._new_heap, P.re, c.st), C.View(c._new_heap, P.im, c.st)
        i, k = z3.Int("i!gp"), z3.Int("k!gp")
        xk = el(x, idx.elems[k])
        hk = z3.If(xk == 0, z3.RealVal(1), xk) * step
        rng = z3.And(0 <= i, i < ln(x), 0 <= k, k < idx.n)
        return [
            ("shape", z3.And(ln(Pre, 0) == ln(x), ln(Pre, 1) == idx.n, ln(Pim, 0) == ln(x), ln(Pim, 1) == idx.n)),
            ("purely-imaginary", z3.ForAll([i, k], z3.Implies(rng, el(Pre, i, k) == 0))),
            ("columns", z3.ForAll([i, k], z3.Implies(rng, el(Pim, i, k) == z3.If(i == idx.elems[k], hk, z3.RealVal(0))))),
            ("non-zero-steps", z3.ForAll([k], z3.Implies(z3.And(0 <= k, k < idx.n, step != 0), hk != 0))),
            ("step-returned", s.term == step),
        ]
