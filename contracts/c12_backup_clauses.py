"""Contract-expressible clauses of C12 ("a crashed run leaves a loadable prefix backup and restarts without rework"), attached to the properties
that ARE claimed: C11 (what the backup file holds), C03 (listener protocol, restored counter) and C01 (loaded points are database entries).

C12 itself stays NOT APPLICABLE: it quantifies over process-death points and over the on-disk state of a half-written HDF5 file.  What function
contracts CAN say - and what is proved here on the real source - is the state of the abstract file at every point where a listener returns:

  C11  HDFDatabase.to_file@c12          to_file with (a) the history preconditions only demanded when the node already holds points (the first backup
                                        export goes to an empty node: full-export fall-back), (b) the file handle closed at exit (ghost h5_nopen),
                                        (c) its own per-point history precondition RE-ESTABLISHED (records-history:*, through @c12 variants of
                                        __add_hdf_output_dataset / __create_hdf_input_output / __append_hdf_output)
       HDFDatabase.update_from_file@c12 reader + handle closed, file untouched, listeners kept, only listeners registered at entry are notified
       Database.to_hdf / update_from_hdf / from_hdf delegation to the two above (same clauses, stated for the database's own HDFDatabase; from_hdf: a NEW database)
       OptimizationProblem.to_hdf                   description block (assumed summary), then Database.to_hdf(append=True) AFTER the handle is closed
       BaseScenario._execute_backup_callback        = OptimizationProblem.to_hdf(backup path, append=True): afterwards the file lists the database
       BackupInvariantLemmas                        "file == database at the last notification" is inductive over store + notification (proved postconditions only)
       BaseScenario.set_optimization_history_backup@file   the first export starts from an empty file or one listing the database   (KNOWN FINDING)
       BaseScenario.execute                         after a run that recorded new points the file lists the database, nothing pending    (defect repaired: 6142829)
  C03  Database.store@c12               the listeners are notified AFTER the point is recorded and registered for export (preconditions of the two
                                        notify functions, proved at their only call sites), the stored point is pending
       EvaluationProblem.add_listener, BaseScenario.set_optimization_history_backup (registration, erase / load branches, restored counter, the load
                                        precedes the registration)
  C01  BaseScenario.set_optimization_history_backup@restart: the loaded points are database entries (served from the database by C01's contracts)

Run-time replay on real files: contracts/rt_c12.py (routed through contracts/rt_c11.py).  Model additions: pyvc/plug_c12.py (opt-in ``c12 = True``).
"""
from __future__ import annotations

import z3

from pyvc import plug_c12 as P12  # noqa: F401  (declares the ghosts h5_nopen / h5_file_exists)
from pyvc import plug_hdf as H
from pyvc.contract import Contract, LoopSpec, register, schema
from pyvc.plug_hdf import sidx
from pyvc.values import StrS, TBool, TCallable, TInt, TList, TObj, TStr, TVal, ValS
from pyvc.values import forall_pat as FA

from contracts import c11_hdf_database as W
from contracts.c01_c03_evaluation import A, DATA, HNd, OUTS, data_after_store, db_wf, entry_usable, key_of, log_appended, o_n
from contracts.c11_hdf_database import DB, HDF, Node, ToFile, UpdateFromFile, index_view, is_pending, pending_wf, point_names, record_pre

INT, BOOL = z3.IntSort(), z3.BoolSort()
HDF_C11 = TObj(HDF, schema_key=HDF + "#c11")
DB12 = DB + "#c12"
schema(DB12, {
    "name": TStr,
    "_Database__data": DATA,
    "_Database__store_listeners": TList(TCallable),
    "_Database__new_iter_listeners": TList(TCallable),
    "_Database__hdf_database": HDF_C11,
})
DBT12 = TObj(DB, schema_key=DB12)
TO_FILE = HDF + ".to_file"
UPDATE_FROM_FILE = HDF + ".update_from_file"


def nopen(c, which):
    return (c.old_ghost if which == "old" else c.new_ghost)("h5_nopen", INT)


def exists(c, which):
    return (c.old_ghost if which == "old" else c.new_ghost)("h5_file_exists", BOOL)


def closed(c):
    """The handle opened by the function is closed again: as many handles are open at exit as at entry."""
    return [("file-handle-closed", nopen(c, "new") == nopen(c, "old"))]


def not_open(c):
    """Validity condition of the file model (A1/A14 of pyvc/plug_hdf.py: an open reads what the LAST CLOSED writer left): no handle is open on the file
    when it is opened.  Every call site in gemseo satisfies it (Database.to_hdf / update_from_hdf are called outside any `with h5py.File` block;
    OptimizationProblem.to_hdf calls Database.to_hdf after its own block - proved)."""
    return [("no-handle-open", nopen(c, "old") == 0)]


def node_empty(F: Node):
    s = z3.Const("s!ne", StrS)
    return z3.And(F.Xn == 0, z3.ForAll([s], z3.And(z3.Not(F.Xm[s]), z3.Not(F.Km[s]), z3.Not(F.VDm[s]), z3.Not(F.VAm[s]))))


def same_node(Fa: Node, Fb: Node):
    """The groups x, k, v hold the same members with the same content."""
    s = z3.Const("s!sn", StrS)
    return z3.And(Fa.Xn == Fb.Xn,
                  z3.ForAll([s], z3.And(Fa.Xm[s] == Fb.Xm[s], Fa.Xv[s] == Fb.Xv[s], Fa.Km[s] == Fb.Km[s], Fa.Kv[s] == Fb.Kv[s],
                                        Fa.VDm[s] == Fb.VDm[s], Fa.VDv[s] == Fb.VDv[s], Fa.VAm[s] == Fb.VAm[s], Fa.VAv[s] == Fb.VAv[s])))


def listeners_kept(c):
    """The listener lists of the database are the same lists with the same elements (Database.store keeps them)."""
    d0, d1 = c.old.database, c.new.database
    return [("listeners-kept", z3.And(d1._Database__store_listeners.n == d0._Database__store_listeners.n, d1._Database__store_listeners.elems == d0._Database__store_listeners.elems,
                                      d1._Database__new_iter_listeners.n == d0._Database__new_iter_listeners.n,
                                      d1._Database__new_iter_listeners.elems == d0._Database__new_iter_listeners.elems))]


def notified_listeners_were_registered(c, db0):
    """Every call logged since entry is a call of a listener that was in one of the two listener lists of the database AT ENTRY (view ``db0``)."""
    from contracts.c01_c03_evaluation import LOGS
    from contracts.c03_driver import lin
    from pyvc import gmodels as G

    SL, NL = db0._Database__store_listeners, db0._Database__new_iter_listeners
    n0, n1 = c.old_ghost("calllog_n", INT), c.new_ghost("calllog_n", INT)
    l1 = c.new_ghost("calllog", LOGS)
    j = z3.Int("j!nl")
    fn = G.CallRec.call_fn(l1[j])
    return [("calllog-grows", n1 >= n0),
            ("notified-listeners-were-registered-at-entry", z3.ForAll([j], z3.Implies(z3.And(n0 <= j, j < n1), z3.Or(lin(SL, fn), lin(NL, fn))), patterns=[l1[j]]))]


def listener_lists_axioms(db0):
    """Cited lemma (ListMembershipLemmas 'elements-are-members', proved from the definition of list membership): the elements of a list are members of it."""
    from pyvc.plug_c03 import lmem_elems_are_members

    SL, NL = db0._Database__store_listeners, db0._Database__new_iter_listeners
    return [("lemma(ListMembershipLemmas):elements-of-the-store-listener-list-are-members", lmem_elems_are_members(SL.n, SL.elems)),
            ("lemma(ListMembershipLemmas):elements-of-the-new-iteration-listener-list-are-members", lmem_elems_are_members(NL.n, NL.elems))]


# ---------------------------------------------------------------------------- HDFDatabase.to_file / update_from_file with the handle clause
def relaxed_history(c, requires):
    """The `append:history:*` preconditions of to_file are only needed when the node already holds points: `append and len(x) != 0` is the
    branch that reads them; with an empty x group the code falls back to the full export (first backup export, file rewritten by a caller)."""
    F0 = Node.of_ghost(c, "old")
    out = []
    for label, f in requires:
        if label.startswith("append:history:"):
            assert z3.is_implies(f)
            out.append((label, z3.Implies(z3.And(c.old.append, F0.Xn != 0), f.arg(1))))
        else:
            out.append((label, f))
    return out


# ---- per-point record history (what `history:records-of-exported-points` demands) as POSTCONDITIONS of the writer primitives
ADD_OUT = HDF + ".__add_hdf_output_dataset"
CREATE_IO = HDF + ".__create_hdf_input_output"
APPEND_OUT = HDF + ".__append_hdf_output"


def ios(s):
    return H.int_of_str(s)


def _listing_facts(c):
    """After __add_hdf_output_dataset: the positions nn0 .. nn0+m-1 of k/<i> hold names of `output_values`, each at its own POS; the earlier positions keep name
    and POS; the array datasets of v/arr_<i> are named by positions of the listing."""
    i = c.old.index_dataset
    outs = c.old.output_values
    mem = outs.member
    F0, F1 = W.node_of(c, "old"), W.node_of(c, "new")
    nn0 = W.old_nn(c.old.keys_group.ds, sidx(i))
    m = outs.n
    j, s = z3.Int("j!lf"), z3.Const("s!lf", StrS)
    return [
        ("listing:new-positions-hold-their-own-names", FA([j], z3.Implies(z3.And(nn0 <= j, j < nn0 + m), z3.And(mem[F1.name(i, j)], F1.pos(i, F1.name(i, j)) == j)), F1.name(i, j))),
        ("listing:old-positions-kept", FA([j], z3.Implies(z3.And(0 <= j, j < nn0), z3.And(F1.name(i, j) == F0.name(i, j), F1.pos(i, F1.name(i, j)) == F0.pos(i, F0.name(i, j)))), F1.name(i, j))),
        ("listing:length", F1.nn(i) == nn0 + m),
        ("listing:array-datasets-are-positions", FA([s], z3.Implies(z3.And(F1.has_agrp(i), F1.amem(i)[s]), z3.And(s == sidx(ios(s)), 0 <= ios(s), ios(s) < nn0 + m)), F1.amem(i)[s])),
    ]


class _Listing:
    variant = "c12"
    prop = ("C11",)

    def ensures(self, c):
        return super().ensures(c) + _listing_facts(c)


@register
class AddHdfOutputDatasetListing(_Listing, W.AddHdfOutputDataset):
    targets = (ADD_OUT,)


@register
class AddHdfOutputDatasetNoMapListing(_Listing, W.AddHdfOutputDatasetNoMap):
    targets = (ADD_OUT,)
    variant = "no-index-map-c12"


@register
class CreateHdfInputOutputListing(_Listing, W.CreateHdfInputOutput):
    targets = (CREATE_IO,)
    callee_variants = {ADD_OUT: "c12"}


def _record_facts(F: Node, i, outs_has, label="record:"):
    """record_pre, clause by clause: the names listed for point i are names of the point (each at its own POS), array datasets are named by listed positions."""
    j, s = z3.Int("j!rf"), z3.Const("s!rf", StrS)
    nn = F.nn(i)
    return [(label + "listing-length", nn >= 0),
            (label + "listed-names-are-names-of-the-point", FA([j], z3.Implies(z3.And(0 <= j, j < nn), z3.And(outs_has(F.name(i, j)), F.pos(i, F.name(i, j)) == j)), F.name(i, j))),
            (label + "array-datasets-are-positions", FA([s], z3.Implies(z3.And(F.has_agrp(i), F.amem(i)[s]), z3.And(s == sidx(ios(s)), 0 <= ios(s), ios(s) < nn)), F.amem(i)[s]))]


def records_of_exported_points(F: Node, D, label="records:"):
    """The record of every exported point only lists names of that point (record_pre of C11, clause by clause): to_file's per-point history precondition, here as
    loop invariant and postcondition, so that the chain of backup exports is inductive."""
    i = z3.Int("i!re")
    out = []
    for l, f in _record_facts(F, i, lambda nm: W.o_member(point_names(D, i))[nm], label=""):
        out.append((label + l, FA([i], z3.Implies(z3.And(0 <= i, i < D.n, F.Xm[sidx(i)]), f), sidx(i))))
    return out


@register
class AppendHdfOutputRecord(W.AppendHdfOutput):
    """__append_hdf_output re-establishes its own history precondition: afterwards every name listed in k/<i> is a name of the point (at its own POS) and the array
    datasets are named by listed positions."""

    targets = (APPEND_OUT,)
    variant = "c12"
    prop = ("C11",)
    callee_variants = {ADD_OUT: "c12"}

    def ensures(self, c):
        F1 = W.node_of(c, "new")
        outs = c.old.output_values
        return super().ensures(c) + _record_facts(F1, c.old.index_dataset, lambda nm: outs.has(nm))


@register
class ToFileClosed(ToFile):
    """HDFDatabase.to_file as in C11 (index-level exported view, both branches), re-verified with
    (a) the per-point history preconditions demanded only for `append and the node holds points` (what the code's own test distinguishes),
    (b) `file-handle-closed`: the handle opened by `with h5py.File(..)` is closed when the function returns (ghost h5_nopen back to its entry value;
        no exception escapes: `raises` is empty, so every exceptional path inside the `with` block is proved infeasible), the file exists afterwards."""

    targets = (TO_FILE,)
    variant = "c12"
    prop = ("C11",)
    c12 = True
    modifies = ToFile.modifies + ("ghost:h5_nopen", "ghost:h5_file_exists")
    callee_variants = {CREATE_IO: "c12", APPEND_OUT: "c12"}
    loops = {n: LoopSpec(anchor=sp.anchor, inv=(lambda base: lambda c, k: base(c, k) + records_of_exported_points(W._cur_node(c), W._tf_views(c)[0]))(sp.inv),
                         modifies=sp.modifies, local_types=sp.local_types) for n, sp in ToFile.loops.items()}

    def requires(self, c):
        return relaxed_history(c, super().requires(c)) + not_open(c)

    def ensures(self, c):
        D, _, _ = W._tf_views(c)
        return super().ensures(c) + records_of_exported_points(Node.of_ghost(c, "new"), D, "records-history:") + closed(c) + [("file-exists", exists(c, "new"))]


@register
class UpdateFromFileClosed(UpdateFromFile):
    """HDFDatabase.update_from_file as in C11 (index level) + the handle is closed at exit and the file is left as it was (frame: the h5_* ghosts are
    not in `modifies`)."""

    targets = (UPDATE_FROM_FILE,)
    variant = "c12"
    prop = ("C11",)
    c12 = True
    modifies = UpdateFromFile.modifies + ("ghost:h5_nopen",)
    loops = {0: LoopSpec(anchor=UpdateFromFile.loops[0].anchor, inv=lambda c, k: W._reader_inv(c, k) + listeners_kept(c) + notified_listeners_were_registered(c, c.old.database),
                         modifies=UpdateFromFile.loops[0].modifies, local_types=UpdateFromFile.loops[0].local_types)}

    def axioms(self, c):
        return super().axioms(c) + listener_lists_axioms(c.old.database)

    def requires(self, c):
        return super().requires(c) + not_open(c)

    def ensures(self, c):
        # (the stores of the reader notify the listeners registered when the reader started - and only those)
        return super().ensures(c) + listeners_kept(c) + notified_listeners_were_registered(c, c.old.database) + closed(c)


# ---------------------------------------------------------------------------- delegation: Database.to_hdf / update_from_hdf
class _NSShift:
    def __init__(self, ns, db_of, consts):
        self._ns, self._db_of, self._consts = ns, db_of, consts

    def __getattr__(self, name):
        if name == "database":
            return self._db_of(self._ns)
        if name == "self":
            return self._db_of(self._ns)._Database__hdf_database
        if name in self._consts:
            return self._consts[name]
        return getattr(self._ns, name)


class Shift:
    """Presents the state of a caller as the state of ``HDFDatabase.to_file(db.__hdf_database, db, file_path, append, ..)`` so that the clauses of the
    to_file / update_from_file contracts can be restated for the caller (``db_of(ns)`` = view of the database in the caller's state)."""

    def __init__(self, c, db_of, **consts):
        self._c, self._db_of, self._consts = c, db_of, consts
        self.st = getattr(c, "st", None)
        self.locals = getattr(c, "locals", {})

    @property
    def old(self):
        return _NSShift(self._c.old, self._db_of, self._consts)

    @property
    def new(self):
        return _NSShift(self._c.new, self._db_of, self._consts)

    def old_ghost(self, name, sort):
        return self._c.old_ghost(name, sort)

    def new_ghost(self, name, sort):
        return self._c.new_ghost(name, sort)


TO_FILE_GHOSTS = tuple(m for m in ToFileClosed.modifies if m.startswith("ghost:"))
WRITER = ToFileClosed()
READER = UpdateFromFileClosed()


class _Delegates(Contract):
    prop = ("C11",)
    c12 = True
    callee_variants = {TO_FILE: "c12", UPDATE_FROM_FILE: "c12"}

    def axioms(self, c):
        return W.axioms_common()


@register
class DatabaseToHdf(_Delegates):
    """Database.to_hdf hands the database itself, the path, the append flag and the node path to its own HDFDatabase: the clauses of to_file@c12 hold
    for (self.__hdf_database, self)."""

    targets = (DB + ".to_hdf",)
    self_schema = DB12
    params = {"file_path": TStr, "append": TBool, "hdf_node_path": TStr}
    modifies = ("self._Database__hdf_database",) + TO_FILE_GHOSTS

    def requires(self, c):
        return WRITER.requires(Shift(c, lambda ns: ns.self))

    def ensures(self, c):
        D0, D1 = c.old.self._Database__data, c.new.self._Database__data
        return WRITER.ensures(Shift(c, lambda ns: ns.self))


@register
class DatabaseUpdateFromHdf(_Delegates):
    """Database.update_from_hdf = update_from_file@c12 on the database itself."""

    targets = (DB + ".update_from_hdf",)
    self_schema = DB12
    params = {"file_path": TStr, "hdf_node_path": TStr}
    modifies = ("self", "self._Database__hdf_database", "ghost:calllog", "ghost:calllog_n", "ghost:h5_nopen")

    def axioms(self, c):
        return READER.axioms(Shift(c, lambda ns: ns.self))

    def requires(self, c):
        return READER.requires(Shift(c, lambda ns: ns.self))

    def ensures(self, c):
        return READER.ensures(Shift(c, lambda ns: ns.self))


# ---------------------------------------------------------------------------- OptimizationProblem.to_hdf and the backup callback
EP = A + "evaluation_problem.EvaluationProblem"
OP = A + "optimization_problem.OptimizationProblem"
CNT = A + "evaluation_counter.EvaluationCounter"
FORM = "gemseo.formulations.base_formulation.BaseFormulation"
SCN = "gemseo.scenarios.base_scenario.BaseScenario"
OP12 = OP + "#c12"
schema(OP12, {"database": DBT12, "evaluation_counter": TObj(CNT)})
schema(FORM + "#c12", {"optimization_problem": TObj(OP, schema_key=OP12)})
SCN12 = SCN + "#c12"
schema(SCN12, {"formulation": TObj(FORM, schema_key=FORM + "#c12"), "_BaseScenario__history_backup_is_set": TBool, "_opt_hist_backup_path": TStr})
TRUE = z3.BoolVal(True)


def _writer_pre(c, db_of, append):
    """Preconditions of to_file@c12 for `append` (a z3 Bool), stated for the database `db_of` of the caller."""
    return WRITER.requires(Shift(c, db_of, append=append))


def _writer_post(c, db_of):
    return WRITER.ensures(Shift(c, db_of, append=TRUE))


@register
class ProblemToHdf(_Delegates):
    """OptimizationProblem.to_hdf: the problem description is written inside its own `with h5py.File(..)` block (assumed thin summary: groups other than
    x, k, v), the handle is CLOSED, and only then the database is exported with Database.to_hdf(append=True) - into the node just truncated (append=False:
    full-export fall-back of to_file, no history needed) or into the node as it was (append=True: to_file's history preconditions).  Afterwards the file
    lists the database (exported view of to_file), the pending buffer is empty, no handle is left open."""

    targets = (OP + ".to_hdf",)
    self_schema = OP12
    params = {"file_path": TStr, "append": TBool, "hdf_node_path": TStr}
    modifies = ("self.database._Database__hdf_database",) + TO_FILE_GHOSTS
    callee_variants = dict(_Delegates.callee_variants)

    def requires(self, c):
        # (append=False truncates the node first: of to_file's preconditions only those that do not depend on the node remain)
        return [(l, f) for l, f in _writer_pre(c, lambda ns: ns.self.database, c.old.append)]

    def ensures(self, c):
        return _writer_post(c, lambda ns: ns.self.database)


@register
class ExecuteBackupCallback(_Delegates):
    """The backup listener exports the problem to the backup path in APPEND mode (save_optimization_history -> OptimizationProblem.to_hdf(append=True)
    -> Database.to_hdf(append=True) -> HDFDatabase.to_file): when it returns, the file lists exactly the points of the database, 0..n-1 in order, every
    point with as many names as it has outputs, the pending buffer is empty and the file handle is closed."""

    targets = (SCN + "._execute_backup_callback",)
    self_schema = SCN12
    params = {"x_vect": TVal}
    modifies = ("self.formulation.optimization_problem.database._Database__hdf_database",) + TO_FILE_GHOSTS

    def requires(self, c):
        return _writer_pre(c, lambda ns: ns.self.formulation.optimization_problem.database, TRUE)

    def ensures(self, c):
        return _writer_post(c, lambda ns: ns.self.formulation.optimization_problem.database)


# ---------------------------------------------------------------------------- C03: Database.store notifies AFTER recording; the stored point is pending
from contracts import c03_driver as D3  # noqa: E402
from contracts.c01_c03_evaluation import DatabaseStore, NotifyNewIter, NotifyStore  # noqa: E402
from pyvc.plug_c03 import bound_method_term  # noqa: E402

ADD_PENDING = HDF + ".add_pending_array"
NOTIFY_STORE = DB + ".notify_store_listeners"
NOTIFY_NEW_ITER = DB + ".notify_new_iter_listeners"


def pending_of(db_view):
    return db_view._Database__hdf_database._HDFDatabase__pending_arrays


def registered_for_export(P, x):
    """x is in the pending buffer (filed under its hash)."""
    h = H.hnd_hash(W.wa(x))
    return z3.And(P.member[h], P.vals[h] == x)


def pending_after_store(P0, P1, x):
    """The export buffer after Database.store(x, ..): x is registered, earlier registrations are kept (the clauses of add_pending_array@c11)."""
    hd = H.hnd_hash(W.wa(x))
    h = z3.Int("h!st12")
    return [("pending:the-stored-point-is-registered", registered_for_export(P1, x)),
            ("pending:keys", z3.ForAll([h], P1.has(h) == z3.Or(P0.has(h), h == hd))),
            ("pending:earlier-registrations-kept", z3.ForAll([h], z3.Implies(P0.has(h), P1.get(h) == P0.get(h)))),
            ("pending-wf", pending_wf(P1))]


class _NotifyAfterRecording:
    """Precondition of the two notification functions, proved at their only call sites (Database.store): the listeners are called when the point IS
    recorded in the database and registered for the next export - so a listener that exports the database (the backup callback) exports a database
    that already holds the point it is notified of ("callbacks may need an updated x", database.py)."""

    variant = "c12"
    prop = ("C03",)
    self_schema = DB12
    new_iteration = False

    def requires(self, c):
        D = c.old.self._Database__data
        x = c.old.x_vect.term
        pre = [("the-point-is-recorded", D.has(x)), ("the-point-is-registered-for-export", registered_for_export(pending_of(c.old.self), x))]
        if self.new_iteration:
            pre.append(("the-new-iteration-is-complete(non-empty-entry)", entry_usable(D, x)))
        return pre


@register
class NotifyStoreAfterRecording(_NotifyAfterRecording, NotifyStore):
    targets = (NOTIFY_STORE,)


@register
class NotifyNewIterAfterRecording(_NotifyAfterRecording, NotifyNewIter):
    targets = (NOTIFY_NEW_ITER,)
    new_iteration = True


@register
class StoreThenNotify(DatabaseStore):
    """Database.store as in C01/C03, re-verified with the export buffer in view: the stored point is registered for export (pending buffer: its key
    is added, earlier registrations kept - under C11's explicit hash-collision-freedom assumption), and both notifications happen AFTER the point has been
    recorded and registered (callee preconditions of notify_*_listeners@c12)."""

    targets = (DB + ".store",)
    variant = "c12"
    prop = ("C03",)
    self_schema = DB12
    callee_variants = {ADD_PENDING: "c11", NOTIFY_STORE: "c12", NOTIFY_NEW_ITER: "c12"}

    def requires(self, c):
        return super().requires(c) + [("pending-wf", pending_wf(pending_of(c.old.self)))]

    def ensures(self, c):
        return super().ensures(c) + pending_after_store(pending_of(c.old.self), pending_of(c.new.self), c.old.x_vect.term)


# ---------------------------------------------------------------------------- C03: registration of the backup listener, erase / load branches
EP12 = EP + "#c12"
schema(EP12, {"database": DBT12})


def _added_iff(L0, L1, f, flag):
    """The listener list after `if flag: add(f)`: f appended iff flag and not yet there; the other listeners keep their places."""
    i = z3.Int("i!ad")
    g = z3.Const("g!ad", ValS)
    return [("size", L1.n == z3.If(z3.And(flag, z3.Not(D3.lin(L0, f))), L0.n + 1, L0.n)),
            ("prefix-kept", z3.ForAll([i], z3.Implies(z3.And(0 <= i, i < L0.n), L1.elems[i] == L0.elems[i]))),
            ("appended-last", z3.Implies(z3.And(flag, z3.Not(D3.lin(L0, f))), L1.elems[L0.n] == f)),
            ("members", z3.ForAll([g], D3.lin(L1, g) == z3.Or(D3.lin(L0, g), z3.And(flag, g == f)), patterns=[D3.lin(L1, g)])),
            ("duplicate-free-preserved", z3.Implies(D3.dupfree(L0), D3.dupfree(L1)))]


@register
class ProblemAddListener(Contract):
    """EvaluationProblem.add_listener registers the listener as STORE listener iff at_each_function_call and as NEW-ITERATION listener iff
    at_each_iteration (each list: appended iff not yet there, the others keep their places); the database content is untouched."""

    targets = (EP + ".add_listener",)
    prop = ("C03",)
    c03 = True
    self_schema = EP12
    params = {"listener": TCallable, "at_each_iteration": TBool, "at_each_function_call": TBool}
    modifies = ("self.database",)

    def ensures(self, c):
        d0, d1 = c.old.self.database, c.new.self.database
        f = c.old.listener
        out = [("store-listeners:" + l, g) for l, g in _added_iff(d0._Database__store_listeners, d1._Database__store_listeners, f, c.old.at_each_function_call)]
        out += [("new-iter-listeners:" + l, g) for l, g in _added_iff(d0._Database__new_iter_listeners, d1._Database__new_iter_listeners, f, c.old.at_each_iteration)]
        return out + [("data-kept", D3.data_term(d1._Database__data) == D3.data_term(d0._Database__data))]


def _scn_db(ns):
    return ns.self.formulation.optimization_problem.database


def backup_callback(c):
    return bound_method_term(c.arg("self").id, "_execute_backup_callback")


def plot_callback(c):
    return bound_method_term(c.arg("self").id, "_execute_plot_callback")


H5_GHOSTS = ("ghost:h5_x", "ghost:h5_k", "ghost:h5_vd", "ghost:h5_va", "ghost:h5_has_ds", "ghost:h5_file_exists", "ghost:h5_nopen")
LOAD_REGION = "existing-file-neither-erased-nor-loaded"


def database_lists_the_file(F: Node, D):
    """The database holds exactly the points of the file, in file order (postcondition of the reader)."""
    i = z3.Int("i!dl")
    return z3.And(D.n == F.Xn, FA([i], z3.Implies(z3.And(0 <= i, i < F.Xn), D.keys[i] == key_of(F.xval(i))), D.keys[i]))


class _SetBackup(Contract):
    """BaseScenario.set_optimization_history_backup (real source).  `groups` selects the clauses stated for each property."""

    c03 = True
    c12 = True
    self_schema = SCN12
    params = {"file_path": TStr, "at_each_iteration": TBool, "at_each_function_call": TBool, "erase": TBool, "load": TBool, "plot": TBool}
    modifies = ("self", "self.formulation.optimization_problem.database", "self.formulation.optimization_problem.database._Database__hdf_database",
                "self.formulation.optimization_problem.evaluation_counter", "ghost:calllog", "ghost:calllog_n") + H5_GHOSTS
    raises = {"ValueError": lambda c: z3.And(exists(c, "old"), c.old.erase, c.old.load)}
    groups = ()

    def axioms(self, c):
        return W.axioms_common()

    def _loads(self, c):
        return z3.And(exists(c, "old"), c.old.load, z3.Not(c.old.erase))

    def requires(self, c):
        F0 = Node.of_ghost(c, "old")
        D0 = _scn_db(c.old)._Database__data
        # what the reader needs is only demanded when the file is going to be read (a backup written by to_file: IndexRoundTripLemmas)
        pre = [("db-wf", db_wf(D0))]
        pre += [("load:" + l, z3.Implies(self._loads(c), f)) for l, f in W.reader_file_wf(F0)]
        return pre + not_open(c) + [("model:an-absent-file-has-no-content", z3.Implies(z3.Not(exists(c, "old")), node_empty(F0)))]

    def finding_regions(self, c):
        return {LOAD_REGION: z3.And(exists(c, "old"), z3.Not(c.old.erase), z3.Not(c.old.load))}

    def ensures(self, c):
        s1 = c.new.self
        db0, db1 = _scn_db(c.old), _scn_db(c.new)
        D0, D1 = db0._Database__data, db1._Database__data
        F0, F1 = Node.of_ghost(c, "old"), Node.of_ghost(c, "new")
        k0 = c.old.self.formulation.optimization_problem.evaluation_counter
        k1 = c.new.self.formulation.optimization_problem.evaluation_counter
        ex0, erase, load = exists(c, "old"), c.old.erase, c.old.load
        loads = self._loads(c)
        out = []
        if "listeners" in self.groups:
            cb, pcb = backup_callback(c), plot_callback(c)
            SL0, SL1 = db0._Database__store_listeners, db1._Database__store_listeners
            NL0, NL1 = db0._Database__new_iter_listeners, db1._Database__new_iter_listeners
            g, i = z3.Const("g!sb", ValS), z3.Int("i!sb")
            out += [("flag-set", s1._BaseScenario__history_backup_is_set), ("path-recorded", s1._opt_hist_backup_path == P12.c12_path(c.old.file_path))]
            out += [("store-listeners:" + l, f) for l, f in _added_iff(SL0, SL1, cb, c.old.at_each_function_call)]
            out += [
                ("new-iter-listeners:members", z3.ForAll([g], D3.lin(NL1, g) == z3.Or(D3.lin(NL0, g), z3.And(c.old.at_each_iteration, g == cb), z3.And(c.old.plot, g == pcb)),
                                                         patterns=[D3.lin(NL1, g)])),
                ("new-iter-listeners:prefix-kept", z3.ForAll([i], z3.Implies(z3.And(0 <= i, i < NL0.n), NL1.elems[i] == NL0.elems[i]))),
                ("new-iter-listeners:duplicate-free-preserved", z3.Implies(D3.dupfree(NL0), D3.dupfree(NL1))),
                ("erase:the-file-is-removed", z3.Implies(z3.And(ex0, erase), z3.And(z3.Not(exists(c, "new")), node_empty(F1)))),
                ("no-erase:the-file-is-untouched", z3.Implies(z3.Not(z3.And(ex0, erase)), z3.And(exists(c, "new") == ex0, same_node(F0, F1)))),
                ("no-load:database-and-counter-untouched", z3.Implies(z3.Not(loads), z3.And(D3.data_term(D1) == D3.data_term(D0), k1.current == k0.current))),
                ("maximum-kept", k1.maximum == k0.maximum),
            ] + closed(c)
            # the load PRECEDES the registration: whatever the stores of the load notified was a listener before this call (the backup callback, registered
            # here, is not notified of the points it is loading - it would export the very file that is open for reading)
            out += [("load-precedes-registration:" + l, f) for l, f in notified_listeners_were_registered(c, db0)]
        if "restart" in self.groups:
            out += [
                ("restart:the-database-holds-the-points-of-the-file-in-file-order", z3.Implies(z3.And(loads, D0.n == 0), database_lists_the_file(F0, D1))),
                ("restart:counter-is-the-number-of-loaded-entries", z3.Implies(loads, k1.current == z3.If(D1.n != 0, D1.n, k0.current))),
                ("restart:db-wf", db_wf(D1)),
            ]
        if "file" in self.groups:
            # the state in which the first backup export starts, for a scenario whose database is empty (as after construction): the file has no point
            # (absent / erased / empty: to_file's full-export fall-back) or it lists exactly the database (just loaded)
            out += [("backup-starts-consistent:file-empty-or-listing-the-database", z3.Implies(D0.n == 0, z3.Or(F1.Xn == 0, database_lists_the_file(F1, D1))))]
        return out


@register
class SetBackupListeners(_SetBackup):
    """C03: ValueError iff the file exists and both erase and load are set (nothing is registered then); otherwise the backup callback is a store listener
    iff at_each_function_call and a new-iteration listener iff at_each_iteration (+ the plot callback iff plot), the other listeners keep their places; an
    existing file is removed iff erase; the database and the counter only change in the load branch; no file handle is left open."""

    targets = (SCN + ".set_optimization_history_backup",)
    prop = ("C03",)
    groups = ("listeners", "restart")


@register
class SetBackupRestart(_SetBackup):
    """C01 (restart): with load=True and an existing file the database is updated from the file BEFORE the run - an empty database then holds exactly the
    points of the file, in file order, so that C01's memoisation contracts serve them without calling the original functions - and
    evaluation_counter.current = len(database)."""

    targets = (SCN + ".set_optimization_history_backup",)
    variant = "restart"
    prop = ("C01",)
    groups = ("restart",)


@register
class SetBackupFile(_SetBackup):
    """C11: the file the first backup export appends to has no point or lists the database.  KNOWN FINDING (region existing-file-neither-erased-nor-loaded):
    with the defaults erase=False, load=False an existing file is kept although the database does not list it."""

    targets = (SCN + ".set_optimization_history_backup",)
    variant = "file"
    prop = ("C11",)
    groups = ("file",)


# ---------------------------------------------------------------------------- "file == database at the last notification" is inductive
class _FreeDict:
    """A dict view made of the components of one free constant of the dict's sort (with the order facts of the dict model)."""

    def __init__(self, name, T):
        self.T = T
        self.term = z3.Const(name, T.sort())
        self.member, self.vals, self.n = T.acc(0)(self.term), T.acc(1)(self.term), T.acc(2)(self.term)
        if T.ordered:
            self.keys, self.pos = T.acc(3)(self.term), T.acc(4)(self.term)

    def has(self, k):
        return self.member[k]

    def get(self, k):
        return self.vals[k]

    def facts(self):
        k, i = z3.Const("k!fd12", self.T.k.sort()), z3.Int("i!fd12")
        out = [self.n >= 0, z3.ForAll([k], z3.Implies(self.member[k], self.n >= 1), patterns=[self.member[k]])]
        if self.T.ordered:
            out += [z3.ForAll([k], z3.Implies(self.member[k], z3.And(0 <= self.pos[k], self.pos[k] < self.n, self.keys[self.pos[k]] == k)), patterns=[self.pos[k]]),
                    z3.ForAll([i], z3.Implies(z3.And(0 <= i, i < self.n), z3.And(self.member[self.keys[i]], self.pos[self.keys[i]] == i)), patterns=[self.keys[i]])]
        return out


class _NS:
    def __init__(_ns, **kw):  # noqa: N805  (a field may be called `self`)
        _ns.__dict__.update(kw)


class _ExportState:
    """The entry (and exit) state of one call of HDFDatabase.to_file@c12(append=True) as free constants: database content D, pending buffer P (P1 at exit),
    node F (F1 at exit), open handles."""

    def __init__(self, D, P, F, P1=None, F1=None):
        self.D, self.P, self.F, self.P1, self.F1 = D, P, F, P1, F1
        self.old = _NS(self=_NS(_HDFDatabase__pending_arrays=P), database=_NS(_Database__data=D), append=TRUE)
        self.new = _NS(self=_NS(_HDFDatabase__pending_arrays=P1), database=_NS(_Database__data=D))

    def _ghost(self, F, name, sort):
        if name == "h5_nopen":
            return z3.IntVal(0)
        if name == "h5_file_exists":
            return z3.Bool("BL_exists")
        return {"h5_x": F.gx, "h5_k": F.gk, "h5_vd": F.gvd, "h5_va": F.gva, "h5_pos": F.POS, "h5_sc": F.SC}[name]

    def old_ghost(self, name, sort):
        return self._ghost(self.F, name, sort)

    def new_ghost(self, name, sort):
        return self._ghost(self.F1, name, sort)


def _free_file(tag):
    """A node whose four ghost maps are free constants (so that Node.of_ghost of an _ExportState is this node)."""
    from pyvc.plug_hdf import KG, POS_SORT, SC_SORT, VA, VD, XG

    gx, gk, gvd, gva = (z3.Const(f"BL_{n}{tag}", T.sort()) for n, T in (("x", XG), ("k", KG), ("vd", VD), ("va", VA)))
    F = Node(XG.acc(0)(gx), XG.acc(1)(gx), XG.acc(2)(gx), KG.acc(0)(gk), KG.acc(1)(gk), VD.acc(0)(gvd), VD.acc(1)(gvd), VA.acc(0)(gva), VA.acc(1)(gva),
             z3.Const(f"BL_pos{tag}", POS_SORT), z3.Const(f"BL_sc{tag}", SC_SORT))
    F.gx, F.gk, F.gvd, F.gva = gx, gk, gvd, gva
    return F


def export_ready(D, P, F):
    """R(F, D, P): the preconditions of to_file@c12(append=True) (the handle clause aside)."""
    return [(l, f) for l, f in WRITER.requires(_ExportState(D, P, F)) if l != "no-handle-open"]


@register
class BackupInvariantLemmas(Contract):
    """'At every notification the backup callback finds its precondition; when it returns the file lists the database' - as an invariant over the contracts of
    Database.store@c12 (listener protocol: notifications come after recording + registration) and HDFDatabase.to_file@c12 (what _execute_backup_callback
    comes down to).  R(F, D, P) := the preconditions of to_file@c12(append=True) for file F, database content D, pending buffer P.

      initially        an absent / erased / empty file (x has no member) with ANY database and a well-formed buffer satisfies R      (first export: fall-back)
      store-preserves  R(F, D0, P0) and the postcondition of store@c12 (D0 -> D1, P0 -> P1) give R(F, D1, P1)   - for ANY number of stores between two
                       notifications, hence for store listeners (every store) and for new-iteration listeners (every new complete iteration) alike
      export-restores  the postcondition of to_file@c12 (file F1 lists D: exported view; the record of every exported point only lists names of that point:
                       `records-history:*`, proved through the @c12 variants of __add_hdf_output_dataset / __create_hdf_input_output / __append_hdf_output;
                       buffer emptied) gives R(F1, D, empty) again - the induction is closed by PROVED postconditions only
      prefix           the postcondition of to_file@c12 says: x has exactly the entries 0..n-1, x/<i> = the i-th key of the database - the points recorded so
                       far, in order (restated from IndexRoundTripLemmas for the reader: reloading gives these points in this order)."""

    targets = ()
    prop = ("C11", "C03")
    lemma = True

    def lemmas(self):
        ax = [f for _, f in W.axioms_naming()] + [W.hash_collision_free()]
        D0, D1 = _FreeDict("BL_D0", DATA), _FreeDict("BL_D1", DATA)
        P0, P1, PE = _FreeDict("BL_P0", W.PENDING), _FreeDict("BL_P1", W.PENDING), _FreeDict("BL_PE", W.PENDING)
        F, F1 = _free_file("0"), _free_file("1")
        x = z3.Const("BL_x", HNd.sort())
        outs = _FreeDict("BL_outs", OUTS)
        facts = z3.And(*ax, *D0.facts(), *D1.facts(), *P0.facts(), *P1.facts(), *PE.facts(), *outs.facts())
        out = []
        # -- initially
        base = z3.And(facts, db_wf(D0), pending_wf(P0), FA([z3.Int("h!bl")], z3.Implies(P0.member[z3.Int("h!bl")], D0.member[P0.vals[z3.Int("h!bl")]]), P0.member[z3.Int("h!bl")]),
                      node_empty(F))
        for l, f in export_ready(D0, P0, F):
            out.append((f"initially:{l}", z3.Implies(base, f)))
        # -- store preserves R
        R0 = z3.And(*[f for _, f in export_ready(D0, P0, F)])
        # (the clauses of store@c12 about the database content and the export buffer, built by the same functions as its `ensures`)
        store_post = z3.And(*[f for _, f in data_after_store(D0, D1, x, outs.member, outs.vals, outs.n)], db_wf(D1), *[f for _, f in pending_after_store(P0, P1, x)])
        for l, f in export_ready(D1, P1, F):
            out.append((f"store-preserves:{l}", z3.Implies(z3.And(facts, R0, store_post), f)))
        # -- the export restores R (with an empty buffer) and leaves the file listing the database
        st = _ExportState(D0, P0, F, P1=PE, F1=F1)
        post = z3.And(*[f for _, f in WRITER.ensures(st)])
        for l, f in export_ready(D0, PE, F1):
            out.append((f"export-restores:{l}", z3.Implies(z3.And(facts, R0, post), f)))  # (R0: the export starts from R and does not touch the database)
        i = z3.Int("i!bl")
        out.append(("prefix:the-file-lists-exactly-the-recorded-points-in-order",
                    z3.Implies(z3.And(facts, post), z3.And(F1.Xn == D0.n, z3.ForAll([i], z3.Implies(z3.And(0 <= i, i < D0.n), z3.And(F1.Xm[sidx(i)], key_of(F1.xval(i)) == D0.keys[i])))))))
        return out


# ---------------------------------------------------------------------------- C11: the final export of BaseScenario.execute
from pyvc.values import TDict, TOpt  # noqa: E402

BMP = "gemseo.core._base_monitored_process.BaseMonitoredProcess"
SCNX = SCN + "#c12x"
schema(SCNX, {"formulation": TObj(FORM, schema_key=FORM + "#c12"), "_BaseScenario__history_backup_is_set": TBool, "_opt_hist_backup_path": TStr,
              "clear_history_before_execute": TBool, "name": TStr})
RUN_MODIFIES = ("self.formulation.optimization_problem.database", "self.formulation.optimization_problem.database._Database__hdf_database",
                "self.formulation.optimization_problem.evaluation_counter", "ghost:calllog", "ghost:calllog_n") + TO_FILE_GHOSTS


class _AtExit:
    """The exit state of a context presented as an entry state (to state a precondition-shaped predicate about the state a function leaves)."""

    def __init__(self, c, keep_entry_ghosts=False):
        self._c, self._keep = c, keep_entry_ghosts
        self.st = getattr(c, "st", None)

    @property
    def old(self):
        return self._c.new

    new = old

    def old_ghost(self, name, sort):
        return self._c.old_ghost(name, sort) if self._keep else self._c.new_ghost(name, sort)

    def new_ghost(self, name, sort):
        return self._c.new_ghost(name, sort)


def grown(D0, D1):
    """D1 holds the points of D0 at the same places (a run only adds points and names)."""
    i = z3.Int("i!gr")
    return z3.And(D1.n >= D0.n, FA([i], z3.Implies(z3.And(0 <= i, i < D0.n), D1.keys[i] == D0.keys[i]), D1.keys[i]))


@register
class ScenarioSetAlgorithm(Contract):
    targets = (SCN + ".set_algorithm",)
    prop = ("C11",)
    self_schema = SCNX
    params = {"algo_settings_model": TOpt(TVal), "algo_settings": TDict(TStr, TVal)}
    trusted = True
    description = "assumed: only records the algorithm settings of the scenario (touches neither the problem, the database, the backup flags nor the file)"


@register
class ScenarioRun(Contract):
    """ASSUMED summary of the monitored run (driver execution through ProblemFunction / Database.store, C01/C03): the database only grows; the listeners are
    notified by Database.store as proved in store@c12; by BackupInvariantLemmas (initially / store-preserves / export-restores) the state the run leaves is
    export-ready whenever it started export-ready: R(file, database, pending buffer) = the preconditions of the backup callback; no handle is left open."""

    targets = (BMP + "._execute_monitored",)
    prop = ("C11",)
    self_schema = SCNX
    modifies = RUN_MODIFIES
    trusted = True
    description = ("assumed summary of the run: the database only grows (points keep their places), the backup flags / path of the scenario are kept, and the export "
                   "preconditions R of the backup callback are preserved (BackupInvariantLemmas over store@c12 and to_file@c12; all three steps proved); no file handle is left open")

    def requires(self, c):
        return _writer_pre(c, _scn_db, TRUE)

    def ensures(self, c):
        D0, D1 = _scn_db(c.old)._Database__data, _scn_db(c.new)._Database__data
        return [("database-only-grows", grown(D0, D1))] + [("export-ready:" + l, f) for l, f in _writer_pre(_AtExit(c), _scn_db, TRUE)]


@register
class DatabaseGetXVect(Contract):
    targets = (DB + ".get_x_vect",)
    prop = ("C11",)
    self_schema = DB12
    params = {"iteration": TInt}
    returns = TVal
    trusted = True
    description = "assumed: returns the input value of the given iteration (1 <= iteration <= len(database): no exception); reads only"

    def requires(self, c):
        return [("iteration-in-range", z3.And(1 <= c.old.iteration, c.old.iteration <= c.old.self._Database__data.n))]


@register
class ScenarioExecuteFinalExport(_Delegates):
    """BaseScenario.execute with a history backup: "the last call to the functions may not trigger the callback ... this ensures that the callback is called
    after the last iteration" (source comment) - when the run recorded new points, the backup file lists the database at the end (exported view of to_file: every
    point with as many names as it has outputs) and nothing is left pending - whatever the size of the database before the run.
    (REPAIRED defect, /repo 6142829: the guard was `0 < n_x < n_x_a`, which skipped the final export for a run starting from an EMPTY database - the normal
    case; with `n_x < n_x_a` the clauses are proved without any region.  The revert is a registered mutant.)"""

    targets = (SCN + ".execute",)
    self_schema = SCNX
    params = {"algo_settings_model": TOpt(TVal), "algo_settings": TDict(TStr, TVal)}
    modifies = RUN_MODIFIES
    callee_variants = dict(_Delegates.callee_variants)

    def requires(self, c):
        # the multi-run mode of MDOScenarioAdapter (clear_history_before_execute) is not a backup configuration
        return _writer_pre(c, _scn_db, TRUE) + [("no-clearing-of-the-history", z3.Not(c.old.self.clear_history_before_execute))]

    def ensures(self, c):
        D0, D1 = _scn_db(c.old)._Database__data, _scn_db(c.new)._Database__data
        new_points = z3.And(c.old.self._BaseScenario__history_backup_is_set, D1.n > D0.n)
        # (stated for the database as the run LEFT it; the handle clause compares with the handles open at entry)
        return [("final-export:" + l, z3.Implies(new_points, f)) for l, f in _writer_post(_AtExit(c, keep_entry_ghosts=True), _scn_db) if l.startswith(("exported-view:", "records-history:", "pending-buffer-emptied", "file-handle-closed"))]


# ---------------------------------------------------------------------------- C11: Database.from_hdf (restart side: a database rebuilt from the backup)
DS = A + "design_space.DesignSpace"


@register
class DesignSpaceFromFile(Contract):
    targets = (DS + ".from_file",)
    prop = ("C11",)
    params = {"file_path": TStr, "hdf_node_path": TStr}
    returns = TObj(DS, schema_key=DS + "#c11")
    raises = {"KeyError": None}
    raises_exact = False
    trusted = True
    description = ("assumed here (DesignSpace.from_hdf is verified in contracts/c11_design_space_hdf.py): reads only the design_space group of the node (KeyError when it "
                   "is absent); touches neither the groups x, k, v nor any database; its own file handle is closed when it returns")


@register
class DatabaseFromHdf(_Delegates):
    """Database.from_hdf builds a NEW database (constructor model: empty, no listener) and updates it from the file: by update_from_file@c12 it holds exactly the N
    points of the file, x/<i> being the i-th one, in index order; the file is untouched and its handle closed; a missing design-space group (KeyError) only means
    a default input space."""

    targets = (DB + ".from_hdf",)
    self_class = DB
    params = {"file_path": TStr, "name": TStr, "hdf_node_path": TStr, "log": TBool}
    returns = DBT12
    modifies = ("ghost:calllog", "ghost:calllog_n", "ghost:h5_nopen")

    def requires(self, c):
        F0 = Node.of_ghost(c, "old")
        return W.reader_file_wf(F0) + not_open(c)

    def ensures(self, c):
        F0 = Node.of_ghost(c, "old")
        D = c.result._Database__data
        return [("points-of-the-file-in-file-order", database_lists_the_file(F0, D)), ("db-wf", db_wf(D)),
                ("no-listener", z3.And(c.result._Database__store_listeners.n == 0, c.result._Database__new_iter_listeners.n == 0))] + closed(c)
