"""C07 (continued) - cache of the minimal couplings, LU variants and dispatchers, Newton step, mode-independence lemmas.

(A) ``JacobianAssembly._compute_diff_ios_and_couplings``: the returned set only depends on the CURRENT request
    (set(variables), set(functions)), whatever was requested before: it is G(request) = (names selected by the graph traversal for the
    request) & all_couplings - states, possibly already without the non-numeric couplings that total_derivatives removes in place from
    the very set it gets (the cached set is returned by reference).  History = representation invariant of the cache.
(B) ``CoupledSystem._direct_mode_lu / _adjoint_mode_lu / direct_mode / adjoint_mode`` over the abstract matrix ring: the LU option only
    changes the representation handed to the (assumed exact) solver; same closed form as the iterative variants.
(C) ``compute_newton_step``: the step solves (dR/dy) step = -R for the assembled residual Jacobian.
(D) Lemmas over the ring with an uninterpreted ``solve`` (A solve(A, B) = B): direct = adjoint; block-column / block-row selection
    commutes with the closed form (requesting a subset of inputs / outputs yields the corresponding sub-blocks).
"""
from __future__ import annotations

import z3

from pyvc import contract as C
from pyvc.contract import Contract, LoopSpec, register, schema
from pyvc.plug_np_c07 import NAME_SET, names_set, traverse_names
from pyvc.values import TInt, TList, TObj, TSet, TStr, TTuple

from contracts.c07_assembly import JA, NAMES, QA

CSQ = "gemseo.core.coupling_structure.CouplingStructure"
NAMESET = TSet(TStr)
KEY = TTuple(NAMESET, NAMESET)

# the coupling structure as the assembly sees it: its list of couplings; `c07_identity` is a ghost field (identity of the object: what the
# graph traversal depends on)
schema(CSQ + "#c07", {"_all_couplings": NAMES, "c07_identity": TInt})
schema(JA + "#cache", {"_JacobianAssembly__last_diff_inouts": KEY, "_JacobianAssembly__minimal_couplings": NAMESET,
                       "coupling_structure": TObj(CSQ, schema_key=CSQ + "#c07")})

# what stays fixed during the life of an assembly (BaseMDA builds both from its disciplines once): the coupling structure, the state
# variables, and the non-numeric couplings that total_derivatives filters out of the set it gets
CS0 = z3.Int("c07_assembly_coupling_structure")
STATES0 = z3.Const("c07_assembly_states", NAME_SET)
NONNUM0 = z3.Const("c07_non_numeric_couplings", NAME_SET)
ALLC0 = z3.Const("c07_assembly_all_couplings", NAME_SET)


def list_set(lst):
    return names_set(NAMES.dt.mk(lst.n, lst.elems))


def minimal(vm, fm, x):
    """x is a minimal coupling of the request (vm, fm): selected by the traversal, a coupling, not a state variable."""
    return z3.And(traverse_names(CS0, vm, fm)[x], ALLC0[x], z3.Not(STATES0[x]))


def cache_ok(key0, key1, cached, tag):
    """The cached set is G(key) up to the non-numeric couplings (which may already have been removed in place by total_derivatives)."""
    x = z3.Const(f"x!{tag}", TStr.sort())
    g = minimal(key0, key1, x)
    return [("cached-set-is-computed-for-the-cached-request", QA([x], z3.Implies(cached[x], g), [cached[x]])),
            ("cached-set-lacks-non-numeric-couplings-at-most", QA([x], z3.Implies(z3.And(g, z3.Not(NONNUM0[x])), cached[x]), [cached[x]]))]


@register
class ComputeDiffIosAndCouplings(Contract):
    """Whatever was requested before, the returned set is the minimal coupling set of the CURRENT request (up to the non-numeric
    couplings total_derivatives removes anyway), and the cache stays consistent with the request it records."""

    targets = (JA + "._compute_diff_ios_and_couplings",)
    prop = ("C07",)
    c07 = "cache"
    self_schema = JA + "#cache"
    params = {"variables": NAMES, "functions": NAMES, "states": NAMES, "coupling_structure": TObj(CSQ, schema_key=CSQ + "#c07")}
    returns = NAMESET
    modifies = ("self",)

    def requires(self, c):
        s, cs = c.old.self, c.old.coupling_structure
        last = [C.View(c._old_heap, r, c.st) for r in s._JacobianAssembly__last_diff_inouts]
        x = z3.Const("x!cr", TStr.sort())
        i = z3.Int("i!cr")
        return [("the-coupling-structure-of-the-assembly", cs.c07_identity == CS0),
                ("its-couplings", z3.ForAll([x], ALLC0[x] == z3.Exists([i], z3.And(0 <= i, i < cs._all_couplings.n, cs._all_couplings.elems[i] == x)))),
                ("the-state-variables-of-the-assembly", z3.ForAll([x], STATES0[x] == z3.Exists([i], z3.And(0 <= i, i < c.old.states.n, c.old.states.elems[i] == x))))] + \
            [(f"inv:{l}", f) for l, f in cache_ok(last[0].member, last[1].member, s._JacobianAssembly__minimal_couplings.member, "ci")]

    def ensures(self, c):
        s1 = c.new.self
        last = [C.View(c._new_heap, r, c.st) for r in s1._JacobianAssembly__last_diff_inouts]
        vm, fm = list_set(c.old.variables), list_set(c.old.functions)
        x = z3.Const("x!ce", TStr.sort())
        r = c.result
        return [(f"result:{l}", f) for l, f in cache_ok(vm, fm, r.member, "cr")] + \
            [("cached-request-is-the-current-one", z3.ForAll([x], z3.And(last[0].member[x] == vm[x], last[1].member[x] == fm[x])))] + \
            [(f"inv:{l}", f) for l, f in cache_ok(last[0].member, last[1].member, s1._JacobianAssembly__minimal_couplings.member, "co")] + \
            [("the-cached-set-is-returned", z3.ForAll([x], r.member[x] == s1._JacobianAssembly__minimal_couplings.member[x]))]


# ============================================================================ (B) LU variants and dispatchers (abstract matrix ring)
from pyvc.plug_np_c07 import TRing, ext_q, madd, mcol, minv, mmul, mneg, mrow, msolve, mtr, ncols, nrows  # noqa: E402
from pyvc.values import TBool, TReal  # noqa: E402

from contracts.c07_assembly import (CS, JACS, MATS, AdjointMode, DirectMode, _adj, _adjoint_inner, _adjoint_outer, _direct_inv0, _direct_inv1, _kept, adjoint_total,  # noqa: E402
                                    closed_form, functions_known, in_range, mterm, ring_named)


def _without(labels, inv):
    """The invariant of the iterative variant without the clauses on the LinearProblem object; the matrix was factorized once."""
    return _kept(lambda c, k: [(l, f) for l, f in inv(c, k) if l not in labels], lu=1)


@register
class DirectModeLU(DirectMode):
    """LU option, direct mode: the factorized solver receives another representation (CSC) of the same dR/dy; same closed form."""

    targets = (CS + "._direct_mode_lu",)
    params = {"functions": NAMES, "n_variables": TInt, "n_couplings": TInt, "dres_dx": TRing, "dres_dy": TRing, "dfun_dx": MATS, "dfun_dy": MATS, "tol": TReal}
    loops = {0: LoopSpec(anchor="range(n_variables)", modifies=("dy_dx", "self"), inv=_without(("system-matrix-kept",), _direct_inv0)),
             1: LoopSpec(anchor="functions", modifies=("jac",), inv=_direct_inv1, local_types={"jac": JACS})}

    lu = True


@register
class AdjointModeLU(AdjointMode):
    """LU option, adjoint mode: (dR/dy)^T is factorized once; same closed form."""

    targets = (CS + "._adjoint_mode_lu",)
    params = {"functions": NAMES, "dres_dx": TRing, "dres_dy_t": TRing, "dfun_dx": MATS, "dfun_dy": MATS, "tol": TReal}
    loops = {0: LoopSpec(anchor="functions", modifies=("jac", "self"), inv=_without(("system-matrix-kept",), _adjoint_outer), local_types={"jac": JACS}),
             1: LoopSpec(anchor="range(dfunction_dy.shape[0])", modifies=("jac", "self"), inv=_without(("system-matrix-kept",), _adjoint_inner))}

    lu = True


def _closed_forms(F, jac, dx, dy, A, B, tag):
    i = z3.Int(f"i!{tag}")
    f = F.elems[i]
    total = closed_form(dx.vals[f], dy.vals[f], A, B)
    return z3.ForAll([i], z3.Implies(z3.And(in_range(i, F.n), ext_q(jac.vals[f], total)), z3.And(jac.has(f), jac.vals[f] == total)))


@register
class DirectModeDispatch(Contract):
    """direct_mode: with or without the LU option, jac[f] = dF_f/dx - dF_f/dy (dR/dy)^-1 dR/dx (the option only selects the solver)."""

    targets = (CS + ".direct_mode",)
    prop = ("C07",)
    c07 = "ring"
    params = {"functions": NAMES, "n_variables": TInt, "n_couplings": TInt, "dres_dx": TRing, "dres_dy": TRing, "dfun_dx": MATS, "dfun_dy": MATS, "linear_solver": TStr,
              "use_lu_fact": TBool}
    returns = JACS
    modifies = ("self",)

    def requires(self, c):
        return DirectMode.requires(self, c)

    def axioms(self, c):
        return ring_named()

    def ensures(self, c):
        return [("closed-form-whatever-the-lu-option", _closed_forms(c.old.functions, c.result, c.old.dfun_dx, c.old.dfun_dy, mterm(c.old.dres_dy), mterm(c.old.dres_dx), "dd")),
                ("direct-mode-counted", c.new.self.n_direct_modes == c.old.self.n_direct_modes + 1)]


@register
class AdjointModeDispatch(Contract):
    """adjoint_mode: with or without the LU option, the same closed form (for the matrix whose transpose is passed)."""

    targets = (CS + ".adjoint_mode",)
    prop = ("C07",)
    c07 = "ring"
    params = {"functions": NAMES, "dres_dx": TRing, "dres_dy_t": TRing, "dfun_dx": MATS, "dfun_dy": MATS, "linear_solver": TStr, "use_lu_fact": TBool}
    returns = JACS
    modifies = ("self",)

    def requires(self, c):
        return AdjointMode.requires(self, c)

    def axioms(self, c):
        return ring_named()

    def ensures(self, c):
        a = _adj(c)
        return [("closed-form-whatever-the-lu-option", _closed_forms(a.F, c.result, a.DX, a.DY, a.A, a.B, "ad")),
                ("adjoint-mode-counted", c.new.self.n_adjoint_modes == c.old.self.n_adjoint_modes + 1)]


# ============================================================================ (D) lemmas over the ring with an uninterpreted solver
from pyvc.plug_np_c07 import MatrixS, operator_axioms, ring_axioms  # noqa: E402

solve = z3.Function("m_solve", MatrixS, MatrixS, MatrixS)  # any exact linear solver: A solve(A, B) = B
invertible = z3.Function("m_invertible", MatrixS, z3.BoolSort())


def _m(*names):
    return [z3.Const(n, MatrixS) for n in names]


def solver_axioms():
    X, Y, Z = _m("X!sa", "Y!sa", "Z!sa")
    FA = z3.ForAll
    return [
        ("solver contract: A solve(A, B) = B for an invertible A", FA([X, Y], z3.Implies(invertible(X), mmul(X, solve(X, Y)) == Y), patterns=[solve(X, Y)])),
        ("transpose-of-product: (XY)^T = Y^T X^T", FA([X, Y], mtr(mmul(X, Y)) == mmul(mtr(Y), mtr(X)), patterns=[mtr(mmul(X, Y))])),
        ("transpose-involution: (X^T)^T = X", FA([X], mtr(mtr(X)) == X, patterns=[mtr(mtr(X))])),
        ("associativity: (XY)Z = X(YZ)", FA([X, Y, Z], mmul(mmul(X, Y), Z) == mmul(X, mmul(Y, Z)), patterns=[mmul(mmul(X, Y), Z)])),
        ("the transpose of an invertible matrix is invertible", FA([X], z3.Implies(invertible(X), invertible(mtr(X))), patterns=[mtr(X)])),
    ]


def selection_axioms():
    X, Y, Z = _m("X!se", "Y!se", "Z!se")
    FA = z3.ForAll
    return [
        ("right-distributivity: (X+Y)Z = XZ + YZ", FA([X, Y, Z], mmul(madd(X, Y), Z) == madd(mmul(X, Z), mmul(Y, Z)), patterns=[mmul(madd(X, Y), Z)])),
        ("left-distributivity: Z(X+Y) = ZX + ZY", FA([X, Y, Z], mmul(Z, madd(X, Y)) == madd(mmul(Z, X), mmul(Z, Y)), patterns=[mmul(Z, madd(X, Y))])),
        ("product-with-opposite: X(-Y) = -(XY) = (-X)Y", FA([X, Y], z3.And(mmul(X, mneg(Y)) == mneg(mmul(X, Y)), mmul(mneg(X), Y) == mneg(mmul(X, Y))), patterns=[mmul(X, mneg(Y)), mmul(mneg(X), Y)])),
        ("associativity: (XY)Z = X(YZ)", FA([X, Y, Z], mmul(mmul(X, Y), Z) == mmul(X, mmul(Y, Z)), patterns=[mmul(mmul(X, Y), Z), mmul(X, mmul(Y, Z))])),
    ]


def direct_formula(dx, dy, a, b, slv=solve):
    """df/dx - df/dy solve(dR/dy, dR/dx)"""
    return madd(dx, mneg(mmul(dy, slv(a, b))))


def adjoint_formula(dx, dy, a, b, slv=solve):
    """df/dx - (solve((dR/dy)^T, (df/dy)^T))^T dR/dx"""
    return madd(dx, mneg(mmul(mtr(slv(mtr(a), mtr(dy))), b)))


@register
class ModeIndependenceLemmas(Contract):
    """For ANY exact solver (A solve(A, B) = B, invertible A): the direct expression df/dx - df/dy solve(dR/dy, dR/dx) equals the adjoint
    expression df/dx - (solve((dR/dy)^T, (df/dy)^T))^T dR/dx; the LU option / matrix type only change the solver; selecting a subset of
    functions (block rows, left product by a selection matrix P) or of variables (block columns, right product by S) commutes with
    the closed form, so a sub-request yields the corresponding sub-blocks of the full total derivative."""

    targets = ()
    prop = ("C07",)
    lemma = True

    def lemmas(self):
        DX, DY, A, B, Z, P, S = _m("DX", "DY", "A", "B", "Z", "P", "S")
        ax = z3.And(*[f for _, f in solver_axioms()])
        sel = z3.And(*[f for _, f in selection_axioms()])
        Y = solve(mtr(A), mtr(DY))
        solve2 = z3.Function("m_solve_other", MatrixS, MatrixS, MatrixS)  # another exact solver (LU factorization, another algorithm, another matrix type)
        X_, Y_ = _m("X!s2", "Y!s2")
        other = z3.ForAll([X_, Y_], z3.Implies(invertible(X_), mmul(X_, solve2(X_, Y_)) == Y_), patterns=[solve2(X_, Y_)])
        closed = lambda dx, dy, b: madd(dx, mmul(dy, mneg(mmul(minv(A), b))))  # noqa: E731  (the closed form of the verified contracts)
        return [
            # (Z names the transposed adjoint system: (A^T Y)^T = Y^T A)
            ("adjoint-system-transposed", z3.Implies(z3.And(ax, invertible(A), Z == mtr(mmul(mtr(A), Y))), mmul(mtr(Y), A) == DY)),
            ("direct-equals-adjoint", z3.Implies(z3.And(ax, invertible(A), mmul(mtr(Y), A) == DY), direct_formula(DX, DY, A, B) == adjoint_formula(DX, DY, A, B))),
            # (existence of solutions is enough: df/dy X = Y^T A X = Y^T B for every solution X of A X = B)
            ("same-result-with-any-two-exact-solvers", z3.Implies(z3.And(ax, other, invertible(A), mmul(mtr(Y), A) == DY),
                                                                  direct_formula(DX, DY, A, B, solve2) == direct_formula(DX, DY, A, B, solve))),
            ("subset-of-functions-is-a-block-row-selection", z3.Implies(sel, mmul(P, closed(DX, DY, B)) == closed(mmul(P, DX), mmul(P, DY), B))),
            ("subset-of-variables-is-a-block-column-selection", z3.Implies(sel, mmul(closed(DX, DY, B), S) == closed(mmul(DX, S), DY, mmul(B, S)))),
        ]


# ============================================================================ (C) Newton step
from pyvc.plug_np_c07 import LSF, TMat, mat_of  # noqa: E402

from contracts.c07_assembly import DISCS, JAC, SIZES, Asm, placement, trigger_named  # noqa: E402

schema(JA + "#newton", {"sizes": SIZES, "disciplines": DISCS, "_JacobianAssembly__linear_solver_factory": LSF})
value_size = z3.Function("c07_value_size", TStr.sort(), z3.IntSort())  # size of a variable (what the disciplines' data and Jacobians agree on)
jac_of_producer = z3.Function("c07_jac_of_producer", TStr.sort(), JAC.sort())  # the Jacobian (discipline.jac) of the discipline computing an output


def _names(lst, tag):
    i = z3.Int(f"i!{tag}")
    return i, lst.elems[i], in_range(i, lst.n)


@register
class ComputeSizes(Contract):
    """ASSUMED (not verified): compute_sizes records, for every function / coupling, the discipline computing it and the size of its
    value, and for every variable its size (number of columns of a Jacobian block w.r.t. it); ValueError if a size cannot be found."""

    targets = (JA + ".compute_sizes",)
    prop = ("C07",)
    trusted = True
    description = ("assumed: compute_sizes(functions, variables, couplings) sets disciplines[o] to the discipline computing o and sizes[o] to the size of its "
                   "value for o in functions + couplings, and sizes[v] to the size of v for v in variables (discipline / grammar / data-converter graph not modelled)")
    params = {"functions": NAMES, "variables": NAMES, "couplings": NAMES}
    modifies = ("self",)
    raises = {"ValueError": None}

    def ensures(self, c):
        s = c.new.self
        out = []
        for nm, lst in (("functions", c.old.functions), ("couplings", c.old.couplings)):
            i, o, rng = _names(lst, f"cs{nm}")
            out.append((f"{nm}-recorded", z3.ForAll([i], z3.Implies(rng, z3.And(s.disciplines.has(o), s.disciplines.vals[o] == jac_of_producer(o), s.sizes.has(o),
                                                                               s.sizes.vals[o] == value_size(o))), patterns=[lst.elems[i]])))
        i, v, rng = _names(c.old.variables, "csv")
        out.append(("variables-sized", z3.ForAll([i], z3.Implies(rng, z3.And(s.sizes.has(v), s.sizes.vals[v] == value_size(v))), patterns=[c.old.variables.elems[i]])))
        return out


def linearized_consistently(outputs, inputs, tag):
    """The producers of `outputs` were linearized and every Jacobian block w.r.t. one of `inputs` has the shape of the values' sizes."""
    a, b = z3.Int(f"a!{tag}"), z3.Int(f"b!{tag}")
    o, v = outputs.elems[a], inputs.elems[b]
    row = JAC.acc(1)(jac_of_producer(o))[o]
    from contracts.c07_assembly import JROW

    blk = JROW.acc(1)(row)[v]
    return [("sizes-are-non-negative", z3.ForAll([a], value_size(outputs.elems[a]) >= 0, patterns=[outputs.elems[a]])),
            ("inputs-sizes-are-non-negative", z3.ForAll([b], value_size(inputs.elems[b]) >= 0, patterns=[inputs.elems[b]])),
            ("outputs-are-linearized", z3.ForAll([a], z3.Implies(in_range(a, outputs.n), JAC.acc(0)(jac_of_producer(o))[o]), patterns=[outputs.elems[a]])),
            ("block-shapes-are-the-sizes", z3.ForAll([a, b], z3.Implies(z3.And(in_range(a, outputs.n), in_range(b, inputs.n), JROW.acc(0)(row)[v]),
                                                                      z3.And(TMat.dim(blk, 0) == value_size(o), TMat.dim(blk, 1) == value_size(v))),
                                                    patterns=[z3.MultiPattern(outputs.elems[a], inputs.elems[b])]))]


class _NewtonStep(Contract):
    """The Newton step is the solution of (dR/dy) step = -R: dR/dy is the residual Jacobian assembled (placement contract) for the residual
    names and the couplings, R the given residuals (or what `residuals` returns); matrix representation."""

    targets = (JA + ".compute_newton_step",)
    prop = ("C07",)
    c07 = "ring"
    disciplines_are_jac_dicts = True
    self_schema = JA + "#newton"
    modifies = ("self",)
    raises = {"ValueError": None}  # from compute_sizes (a size cannot be determined)

    def requires(self, c):
        out = [("matrix-representation", c.old.matrix_type == _str("matrix"))]
        out += [(f"couplings:{l}", f) for l, f in linearized_consistently(c.old.couplings, c.old.couplings, "nc")]
        out += [(f"residuals:{l}", f) for l, f in linearized_consistently(c.old.resolved_residual_names, c.old.couplings, "nr")]
        return out

    def axioms(self, c):
        return ring_named() + trigger_named()

    def ensures(self, c):
        step, _conv = c.result_value
        names = c.locals["residual_names"]
        A = Asm(c.new.self, names, c.old.couplings, True)
        M = c.locals["dres_dy"].obj
        R = mterm(c.locals["residuals"])
        lhs = mat_of(TMat.dt.mk(M.sparse, M.shape[0], M.shape[1], M.elems))
        return [(f"residual-jacobian:{l}", f) for l, f in placement(A, M)] + \
            [("residual-names-are-the-resolved-ones-or-the-couplings", z3.And(
                z3.Implies(c.old.resolved_residual_names.n != 0, z3.BoolVal(names.ref == c.arg("resolved_residual_names"))),
                z3.Implies(c.old.resolved_residual_names.n == 0, z3.BoolVal(names.ref == c.arg("couplings"))))),
             ("newton-step-solves-the-linearized-system", c._new_heap[step.id].term == msolve(lhs, mneg(R)))]


def _str(s):
    from pyvc.values import str_lit

    return str_lit(s)


@register
class NewtonStepWithResiduals(_NewtonStep):
    params = {"in_data": MATS, "couplings": NAMES, "linear_solver": TStr, "matrix_type": TStr, "residuals": TRing, "resolved_residual_names": NAMES}


@register
class Residuals(Contract):
    """ASSUMED (not verified): residuals(in_data, names) returns the stacked vector Y_i(in_data) - in_data_i of the coupling residuals."""

    targets = (JA + ".residuals",)
    prop = ("C07",)
    trusted = True
    description = ("assumed: residuals(in_data, var_names) returns the concatenation, in the order of var_names, of (value computed by the producing discipline - "
                   "prescribed value) for each name (disciplines' grammars, data and converters not modelled); no effect on the assembly")
    params = {"in_data": MATS, "var_names": NAMES}
    returns = TRing


@register
class NewtonStepComputingResiduals(_NewtonStep):
    """Same contract when the residuals are not given: R is what `residuals(in_data, couplings)` returns (assumed contract)."""

    variant = "residuals-computed"
    from pyvc.values import TNone as _TNone

    params = {"in_data": MATS, "couplings": NAMES, "linear_solver": TStr, "matrix_type": TStr, "residuals": _TNone, "resolved_residual_names": NAMES}
