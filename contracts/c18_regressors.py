"""C18 - regression models: data formatters (transformer wrapping of predict / predict_jacobian) and per-sample Jacobians.

Part 1: BaseMLSupervisedAlgo._transform_data / _transform_data_from_variable_names (variable-level transformers keep the VARIABLE ORDER).
Arrays are opaque here (pyvc/gmodels.py: every numpy operation is a deterministic uninterpreted function of its operands); the
transformers are the abstract members of contracts/c18_transformers.py (uninterpreted maps t_f / t_g / t_j / t_ji).
"""
from __future__ import annotations

import z3

from contracts.c18_transformers import TRANSF, t_f, t_g, t_j, t_ji
from pyvc import contract as C
from pyvc.contract import Contract, LoopSpec, register, schema
from pyvc.values import forall_pat, TBool, TDict, TInt, TList, TNd, TStr, TVal, ValS, val_of_int

SUP = "gemseo.mlearning.core.algos.supervised.BaseMLSupervisedAlgo"
DC = "gemseo.utils.data_conversion."
INT = z3.IntSort()
TRDICT = TDict(TStr, TRANSF)  # the `transformer` mapping: variable or group name -> transformer
NAMES = TList(TStr)
SIZES = TDict(TStr, TInt)
BLOCKS = TDict(TStr, TNd)
LNd = TList(TNd)
schema(SUP + "#tr", {"transformer": TRDICT})

# columns of variable `name` within an array laid out along `names` with the sizes `sizes` (split_array_to_dict_of_arrays)
split_block = z3.Function("c18_split_block", ValS, SIZES.sort(), NAMES.sort(), TStr.sort(), ValS)
# numpy.concatenate(list, axis=-1) in the opaque numpy layer: a function of the list (length, elements)
CONCAT = z3.Function("np_numpy_concatenate_axis_2", ValS, ValS, ValS)
val_of_list = z3.Function("val_of_list_Nd", LNd.sort(), ValS)


variable_transform = z3.Function("c18_variable_transform", TRDICT.sort(), ValS, NAMES.sort(), SIZES.sort(), NAMES.sort(), z3.BoolSort(), ValS)


def names_term(v):
    return NAMES.dt.mk(v.n, v.elems)


def sizes_term(v):
    return SIZES.dt.mk(v.member, v.vals, v.n)


def in_list(lst, x):
    """`x in lst` exactly as the list model states it."""
    i = z3.Int("i!in")
    return z3.Exists([i], z3.And(0 <= i, i < lst.n, lst.elems[i] == x))


@register
class SplitArray(Contract):
    targets = (DC + "split_array_to_dict_of_arrays",)
    prop = ("C18",)
    trusted = True
    description = ("assumed: split_array_to_dict_of_arrays(array, names_to_sizes, names) maps every name of `names` to the block c18_split_block(array, sizes, "
                   "names, name) of its columns (offset = sum of the sizes of the names before it), and nothing else; no side effect")
    params = {"array": TNd, "names_to_sizes": SIZES}  # (*names: one list of names - the split of the last axis)
    returns = BLOCKS

    def requires(self, c):
        v = c.arg("names")
        return [("one-list-of-names", z3.BoolVal(isinstance(v, tuple) and len(v) == 1))]

    def ensures(self, c):
        r, nm = c.result, C.View(c._old_heap, c.arg("names")[0], c.st)
        i, x = z3.Int("i!sp"), z3.Const("x!sp", TStr.sort())
        blk = lambda name: split_block(c.old.array, sizes_term(c.old.names_to_sizes), names_term(nm), name)  # noqa: E731
        return [("every-name-has-a-block", z3.ForAll([i], z3.Implies(z3.And(0 <= i, i < nm.n), z3.And(r.member[nm.elems[i]], r.vals[nm.elems[i]] == blk(nm.elems[i]))),
                                                     patterns=[nm.elems[i]])),
                ("nothing-else", z3.ForAll([x], z3.Implies(r.member[x], in_list(nm, x)), patterns=[r.member[x]]))]


def applied(inverse, tr, data):
    inv = z3.BoolVal(inverse) if isinstance(inverse, bool) else inverse
    return z3.If(inv, t_g(tr, data), t_f(tr, data))


@register
class TransformData(Contract):
    """_transform_data(data, name, inverse) = transformer[name].inverse_transform(data) if inverse else transformer[name].transform(data)."""

    targets = (SUP + "._transform_data",)
    prop = ("C18",)
    c18 = True
    inline_ok = True  # callers execute the (four-line) body itself
    self_schema = SUP + "#tr"
    params = {"data": TNd, "name": TStr, "inverse": TBool}
    returns = TNd
    raises = {"KeyError": lambda c: z3.Not(c.old.self.transformer.member[c.old.name])}

    def ensures(self, c):
        T = c.old.self.transformer
        return [("transformer-of-the-name-applied", c.result == applied(c.old.inverse, T.vals[c.old.name], c.old.data))]


def _transform_data_nofork(ex, args, kwargs, lineno):
    """The contract TransformData inside a comprehension element: KeyError becomes the obligation `comprehension-key-present`."""
    from pyvc.plug_c18 import NOFORK_SUMMARIES  # noqa: F401
    from pyvc.values import SV

    st = ex.st
    self_ref, data, name, inverse = (list(args) + [kwargs.get(k) for k in ("data", "name", "inverse")][len(args) - 1:])[:4]
    T = st.heap[st.heap[self_ref.id].fields["transformer"].id]
    kt = T.k.embed(st, name)
    ex.check(T.member[kt], "safety", "comprehension-key-present", lineno, aux=True)
    inv = inverse if isinstance(inverse, bool) else inverse.term
    return SV(applied(inv, T.vals[kt], TVal.embed(st, data)), TNd)


from pyvc.plug_c18 import NOFORK_SUMMARIES  # noqa: E402

NOFORK_SUMMARIES[SUP + "._transform_data"] = _transform_data_nofork


def _expected(c, i):
    """The i-th block of the result: the transformed block of the i-th variable when it has a transformer, its block otherwise."""
    nm, T = c.old.names, c.old.self.transformer
    x = nm.elems[i]
    blk = split_block(c.old.data, sizes_term(c.old.names_to_sizes), names_term(nm), x)
    return z3.If(in_list(c.old.names_to_transform, x), applied(c.old.inverse, T.vals[x], blk), blk)


def _tv_inv(c, k):
    L = c.locals["transformed_data"]
    i = z3.Int("i!tv")
    return [("count", L.n == k),
            ("blocks-in-variable-order", forall_pat([i], z3.Implies(z3.And(0 <= i, i < k), L.elems[i] == _expected(c, i)), L.elems[i]))]


@register
class TransformDataFromVariableNames(Contract):
    """result = concatenate([e_0, ..., e_{n-1}], axis=-1) where, IN THE ORDER OF `names`, e_i is the transformed block of the i-th variable when
    it is one of names_to_transform and its untouched block otherwise (block = its columns by its size)."""

    targets = (SUP + "._transform_data_from_variable_names",)
    prop = ("C18",)
    c18 = True
    self_schema = SUP + "#tr"
    params = {"data": TNd, "names": NAMES, "names_to_sizes": SIZES, "names_to_transform": NAMES, "inverse": TBool}
    returns = TNd
    loops = {0: LoopSpec(anchor="names", inv=_tv_inv, modifies=("transformed_data",), local_types={"transformed_data": LNd, "name": TStr})}

    def requires(self, c):
        # BaseMLSupervisedAlgo._post_init: the variables to transform are the keys of `transformer` that are input (output) names
        nt, T = c.old.names_to_transform, c.old.self.transformer
        j = z3.Int("j!tq")
        return [("variables-to-transform-have-a-transformer", z3.ForAll([j], z3.Implies(z3.And(0 <= j, j < nt.n), T.member[nt.elems[j]]), patterns=[nt.elems[j]]))]

    def ensures(self, c):
        T = c.old.self.transformer
        # the result is a deterministic function of the arguments and of the transformers: `c18_variable_transform` names it for the callers
        # (listed as an assumption; the clauses below are what is verified about it)
        named = ("assumed:named-result", c.result == variable_transform(TRDICT.dt.mk(T.member, T.vals, T.n), c.old.data, names_term(c.old.names),
                                                                        sizes_term(c.old.names_to_sizes), names_term(c.old.names_to_transform),
                                                                        z3.BoolVal(c.old.inverse) if isinstance(c.old.inverse, bool) else c.old.inverse))
        if not hasattr(c, "locals"):
            return [named]
        L = c.locals["transformed_data"]
        i = z3.Int("i!te")
        lt = LNd.dt.mk(L.n, L.elems)
        return [named, ("one-block-per-variable", L.n == c.old.names.n),
                ("blocks-in-variable-order", forall_pat([i], z3.Implies(z3.And(0 <= i, i < L.n), L.elems[i] == _expected(c, i)), L.elems[i])),
                ("result-is-the-concatenation-of-the-blocks", c.result == CONCAT(val_of_list(lt), val_of_int(z3.IntVal(-1))))]


# ---------------------------------------------------------------------------- Part 2: per-sample predictions and Jacobians of concrete regressors
from pyvc import gmodels as G  # noqa: E402
from pyvc.npmodel import NumpyModel, TArr, _arr  # noqa: E402
from pyvc.plug_c18 import CALLABLE_RECORDS, arr2_term  # noqa: E402
from pyvc.values import SV, TRec  # noqa: E402

_NP = NumpyModel()
F1, F2, F3 = TArr("f", 1), TArr("f", 2), TArr("f", 3)
REAL = z3.RealSort()
PCE = "gemseo.mlearning.regression.algos.pce.PCERegressor"
# the OpenTURNS meta-model is abstract: its value and its gradient at row s of a batch X (sample-wise uninterpreted maps).
# ASSUMED (OpenTURNS): f.gradient(x) is the (n_inputs, n_outputs) matrix of the partial derivatives d f_o / d x_i at x - the transposed Jacobian.
OTFN = TRec("OTFunctionC18", {"uid": TInt}, cls="openturns.Function")
ot_value = z3.Function("c18_ot_value", OTFN.sort(), F2.sort(), INT, INT, REAL)  # f(X)[s, o]
ot_gradient = z3.Function("c18_ot_gradient", OTFN.sort(), F2.sort(), INT, INT, INT, REAL)  # f.gradient(X[s])[i, o]
schema(PCE, {"_prediction_function": OTFN, "c18_reduced_input_dimension": TInt, "c18_reduced_output_dimension": TInt})


def _ot_call(ex, fv, args, kwargs, lineno):
    A = _arr(ex, args[0])
    self_ref = ex.entry_args["self"]
    rout = ex.st.heap[self_ref.id].fields["c18_reduced_output_dimension"].term
    Xt = arr2_term(A)
    ex.assumed.add("OpenTURNS meta-model f(X): one row of n_outputs values per sample, c18_ot_value(f, X, s, o)")
    return _NP.new(ex, "f", (A.shape[0], rout), _NP.lam(2, lambda s, o: ot_value(fv.term, Xt, s, o)))


def _ot_gradient(ex, recv, args, kwargs):
    row = ex.st.ghost.get("c18_row", {}).get(args[0].id)
    if row is None or row[0] is None:
        from pyvc.values import Unsupported

        raise Unsupported("gradient of the meta-model at a point that is not a row of the input data")
    Xt, s, _ = row
    o_ = ex.st.heap[ex.entry_args["self"].id].fields
    rin, rout = o_["c18_reduced_input_dimension"].term, o_["c18_reduced_output_dimension"].term
    ex.assumed.add("OpenTURNS f.gradient(x): the (n_inputs, n_outputs) matrix of the partial derivatives d f_o / d x_i at x (transposed Jacobian), c18_ot_gradient(f, X, s, i, o) at row s of X")
    return _NP.new(ex, "f", (rin, rout), _NP.lam(2, lambda i, o: ot_gradient(recv.term, Xt, s, i, o)))


CALLABLE_RECORDS[OTFN.name] = _ot_call
G.RECORD_METHODS[("openturns.Function", "gradient")] = _ot_gradient


class _ReducedDim(Contract):
    prop = ("C18",)
    trusted = True
    returns = TInt
    FIELD = None
    description = ("assumed: the reduced input / output dimension (dimension after the transformers, cached on first use) is a non-negative integer "
                   "determined by the learning set and the transformers; reading it has no visible effect")

    def ensures(self, c):
        return [("value", z3.And(c.result == getattr(c.old.self, self.FIELD), c.result >= 0))]


@register
class ReducedInputDimension(_ReducedDim):
    targets = (SUP + "._reduced_input_dimension",)
    FIELD = "c18_reduced_input_dimension"


@register
class ReducedOutputDimension(_ReducedDim):
    targets = (SUP + "._reduced_output_dimension",)
    FIELD = "c18_reduced_output_dimension"


def el(a, *i):
    return z3.Select(a.obj.elems, *i)


def ln(a, j=0):
    return a.obj.shape[j]


def _pce_rows(c, J, upto):
    s0 = c.old.self
    Xt = arr2_term(c.old.input_data.obj)
    s, o, i = z3.Int("s!pj"), z3.Int("o!pj"), z3.Int("i!pj")
    rng = z3.And(0 <= s, s < upto, 0 <= o, o < ln(J, 1), 0 <= i, i < ln(J, 2))
    return forall_pat([s, o, i], z3.Implies(rng, el(J, s, o, i) == ot_gradient(s0._prediction_function.term, Xt, s, i, o)), el(J, s, o, i))


@register
class PcePredictJacobian(Contract):
    """Row s of the result is the transposed gradient of the meta-model AT SAMPLE s: J[s, o, i] = d f_o / d x_i (x_s), for every sample of the batch."""

    targets = (PCE + "._predict_jacobian",)
    prop = ("C18",)
    numpy = "precise"
    c18 = True
    frame_arrays = True
    params = {"input_data": F2}
    returns = F3
    # anchor None: the invariant speaks about the samples 0..k-1 whatever expression the loop runs over
    loops = {0: LoopSpec(anchor=None, inv=lambda c, k: [("rows-of-the-first-k-samples", _pce_rows(c, c.locals["jac"], k))], modifies=("jac",),
                         local_types={"index": TInt, "data": F1})}

    def requires(self, c):
        s0 = c.old.self
        return [("dimensions-non-negative", z3.And(s0.c18_reduced_input_dimension >= 0, s0.c18_reduced_output_dimension >= 0))]

    def ensures(self, c):
        s0, X, J = c.old.self, c.old.input_data, c.result
        return [("shape", z3.And(ln(J, 0) == ln(X), ln(J, 1) == s0.c18_reduced_output_dimension, ln(J, 2) == s0.c18_reduced_input_dimension)),
                ("row-s-is-the-transposed-gradient-at-sample-s", _pce_rows(c, J, ln(X)))]


@register
class PcePredict(Contract):
    """Row s of the result is the value of the meta-model at sample s."""

    targets = (PCE + "._predict",)
    prop = ("C18",)
    numpy = "precise"
    c18 = True
    frame_arrays = True
    params = {"input_data": F2}
    returns = F2

    def ensures(self, c):
        s0, X, R = c.old.self, c.old.input_data, c.result
        Xt = arr2_term(X.obj)
        s, o = z3.Int("s!pp"), z3.Int("o!pp")
        rng = z3.And(0 <= s, s < ln(X), 0 <= o, o < ln(R, 1))
        return [("shape", z3.And(ln(R, 0) == ln(X), ln(R, 1) == s0.c18_reduced_output_dimension)),
                ("row-s-is-the-value-at-sample-s", forall_pat([s, o], z3.Implies(rng, el(R, s, o) == ot_value(s0._prediction_function.term, Xt, s, o)), el(R, s, o)))]


# ---------------------------------------------------------------------------- LinearRegressor
LIN = "gemseo.mlearning.regression.algos.linreg.LinearRegressor"
# the scikit-learn linear model is abstract: fitted coefficients coef_ (n_outputs, n_inputs) and its predict.
# ASSUMED (scikit-learn): predict(X)[s, o] = intercept_[o] + sum_i coef_[o, i] * X[s, i]  (see LinearModelLemmas)
SKLIN = TRec("SklearnLinearModelC18", {"uid": TInt, "coef_": F2}, cls="sklearn.linear_model.LinearRegression")
sk_predict = z3.Function("c18_sklearn_predict", SKLIN.sort(), F2.sort(), INT, INT, REAL)  # algo.predict(X)[s, o]
schema(LIN, {"algo": SKLIN})


def _sk_predict(ex, recv, args, kwargs):
    A = _arr(ex, args[0])
    Xt = arr2_term(A)
    n_out = F2.dim(SKLIN.accessor("coef_")(recv.term), 0)
    ex.assumed.add("scikit-learn linear model predict(X): one row of n_outputs = coef_.shape[0] values per sample, c18_sklearn_predict(algo, X, s, o)")
    return _NP.new(ex, "f", (A.shape[0], n_out), _NP.lam(2, lambda s, o: sk_predict(recv.term, Xt, s, o)))


G.RECORD_METHODS[("sklearn.linear_model.LinearRegression", "predict")] = _sk_predict


def _coef(c):
    t = SKLIN.accessor("coef_")(c.old.self.algo.term)
    return F2.dim(t, 0), F2.dim(t, 1), F2.els(t)


@register
class LinPredictJacobian(Contract):
    """J[s, o, i] = coef_[o, i] for every sample s: the fitted coefficients, independent of the input data."""

    targets = (LIN + "._predict_jacobian",)
    prop = ("C18",)
    numpy = "precise"
    c18 = True
    frame_arrays = True
    params = {"input_data": F2}
    returns = F3

    def ensures(self, c):
        X, J = c.old.input_data, c.result
        p, q, co = _coef(c)
        s, o, i = z3.Int("s!lj"), z3.Int("o!lj"), z3.Int("i!lj")
        rng = z3.And(0 <= s, s < ln(X), 0 <= o, o < p, 0 <= i, i < q)
        return [("shape", z3.And(ln(J, 0) == ln(X), ln(J, 1) == p, ln(J, 2) == q)),
                ("coefficients-for-every-sample", forall_pat([s, o, i], z3.Implies(rng, el(J, s, o, i) == z3.Select(co, o, i)), el(J, s, o, i)))]


@register
class LinPredict(Contract):
    """_predict(X)[s, o] = algo.predict(X)[s, o] (the scikit-learn prediction, one row per sample)."""

    targets = (LIN + "._predict",)
    prop = ("C18",)
    numpy = "precise"
    c18 = True
    frame_arrays = True
    params = {"input_data": F2}
    returns = F2

    def ensures(self, c):
        X, R = c.old.input_data, c.result
        p, q, co = _coef(c)
        Xt = arr2_term(X.obj)
        s, o = z3.Int("s!lp"), z3.Int("o!lp")
        rng = z3.And(0 <= s, s < ln(X), 0 <= o, o < p)
        return [("shape", z3.And(ln(R, 0) == ln(X), ln(R, 1) == p)),
                ("delegates-to-the-linear-model", forall_pat([s, o], z3.Implies(rng, el(R, s, o) == sk_predict(c.old.self.algo.term, Xt, s, o)), el(R, s, o)))]


RARR = z3.ArraySort(INT, REAL)
lin_form = z3.Function("c18_linear_form", RARR, RARR, INT, REAL)  # sum_{k<m} c[k] * x[k]


def lin_axioms():
    cc, x, m = z3.Const("c!lf", RARR), z3.Const("x!lf", RARR), z3.Int("m!lf")
    return z3.And(z3.ForAll([cc, x], lin_form(cc, x, 0) == 0, patterns=[lin_form(cc, x, 0)]),
                  z3.ForAll([cc, x, m], z3.Implies(m >= 0, lin_form(cc, x, m + 1) == lin_form(cc, x, m) + cc[m] * x[m]), patterns=[lin_form(cc, x, m + 1)]))


@register
class LinearModelLemmas(Contract):
    """The coefficient row is the exact derivative of the (assumed) affine prediction b + sum_k c[k] x[k]: for every step h along input i,
    f(x + h e_i) - f(x) = c[i] h  (induction over the number of terms: D(m) = c[i] h if i < m else 0)."""

    targets = ()
    prop = ("C18",)
    lemma = True

    def lemmas(self):
        cc, x = z3.Const("c", RARR), z3.Const("x", RARR)
        m, i = z3.Ints("m i")
        h, b = z3.Reals("h b")
        x2 = z3.Store(x, i, x[i] + h)
        D = lambda t: lin_form(cc, x2, t) - lin_form(cc, x, t) == z3.If(i < t, cc[i] * h, z3.RealVal(0))  # noqa: E731,N806
        AX = lin_axioms()
        return [("difference-quotient:base", z3.Implies(z3.And(AX, i >= 0), D(z3.IntVal(0)))),
                ("difference-quotient:step", z3.Implies(z3.And(AX, i >= 0, m >= 0, D(m), lin_form(cc, x2, m + 1) == lin_form(cc, x2, m + 1), lin_form(cc, x, m + 1) == lin_form(cc, x, m + 1)), D(m + 1))),
                ("jacobian-entry-is-the-derivative", z3.Implies(z3.And(0 <= i, i < m, D(m)), (b + lin_form(cc, x2, m)) - (b + lin_form(cc, x, m)) == cc[i] * h))]


# ---------------------------------------------------------------------------- Part 3: the decorator wrappers of predict / predict_jacobian
# (functions nested in the DataFormatters class methods; their free variables `func`, `transform_inputs`, `transform_outputs` are bound by `closure`)
from contracts.c18_transformers import EYE, GETITEM, MATMUL, SHAPE  # noqa: E402
from pyvc.plug_c18 import FUNV_MODELS  # noqa: E402
from pyvc.values import TFun, TObj, str_lit  # noqa: E402

SDF = "gemseo.mlearning.data_formatters.supervised_data_formatters.SupervisedDataFormatters"
RDF = "gemseo.mlearning.data_formatters.regression_data_formatters.RegressionDataFormatters"
BR = "gemseo.mlearning.regression.algos.base_regressor.BaseRegressor"
LSET = "c18.LearningSet"  # the learning dataset is seen through three attributes only
schema(LSET, {"INPUT_GROUP": TStr, "OUTPUT_GROUP": TStr, "variable_names_to_n_components": SIZES})
schema(BR + "#fmt", {"transformer": TRDICT, "_transform_input_group": TBool, "_transform_output_group": TBool,
                     "_input_variables_to_transform": NAMES, "_output_variables_to_transform": NAMES, "input_names": NAMES, "output_names": NAMES,
                     "_transformed_output_sizes": SIZES, "learning_set": TObj(LSET), "c18_state": TVal})
ALGO = TObj(BR, schema_key=BR + "#fmt")
wrapped = z3.Function("c18_wrapped_function", ValS, ValS, ValS)  # func(algo, data): the decorated function (raw prediction / raw Jacobian)
raw_predict = z3.Function("c18_raw_predict", ValS, ValS, ValS)  # algo._predict(data)
FUNC = TFun("c18_wrapped_function", [TVal, TNd], TNd)
IN_G, OUT_G = str_lit("inputs"), str_lit("outputs")


def _call_wrapped(ex, fv, args, kwargs, lineno):
    st = ex.st
    algo, data = args[0], args[1]
    if len(args) != 2 or kwargs:
        from pyvc.values import Unsupported

        raise Unsupported("wrapped function called with extra arguments")
    ex.assumed.add("the decorated function func(algo, data) is a deterministic function c18_wrapped_function of the algorithm's state and of the data, without side effect")
    return SV(wrapped(st.heap[algo.id].fields["c18_state"].term, TVal.embed(st, data)), TNd)


FUNV_MODELS["c18_wrapped_function"] = _call_wrapped


@register
class RawPredict(Contract):
    targets = (SUP + "._predict",)
    prop = ("C18",)
    trusted = True
    description = "assumed (abstract regressor): _predict(data) is a deterministic function c18_raw_predict of the algorithm's state and of the data, without side effect"
    self_schema = BR + "#fmt"
    params = {"input_data": TNd}
    returns = TNd

    def ensures(self, c):
        return [("value", c.result == raw_predict(c.old.self.c18_state, c.old.input_data))]


def _groups(c):
    ls = c.old.algo.learning_set
    return [("group-names", z3.And(ls.INPUT_GROUP == IN_G, ls.OUTPUT_GROUP == OUT_G))]


def _fmt_requires(c):
    a = c.old.algo
    T = a.transformer
    j = z3.Int("j!fq")
    iv, ov = a._input_variables_to_transform, a._output_variables_to_transform
    # BaseMLSupervisedAlgo._post_init: the flags and lists are derived from the keys of `transformer`
    return _groups(c) + [
        ("input-group-flag", a._transform_input_group == T.member[IN_G]), ("output-group-flag", a._transform_output_group == T.member[OUT_G]),
        ("input-variables-to-transform-have-a-transformer", z3.ForAll([j], z3.Implies(z3.And(0 <= j, j < iv.n), T.member[iv.elems[j]]), patterns=[iv.elems[j]])),
        ("output-variables-to-transform-have-a-transformer", z3.ForAll([j], z3.Implies(z3.And(0 <= j, j < ov.n), T.member[ov.elems[j]]), patterns=[ov.elems[j]]))]


def _tdict(a):
    T = a.transformer
    return TRDICT.dt.mk(T.member, T.vals, T.n)


@register
class FormatTransformWrapper(Contract):
    """predict = inverse output transformation o raw prediction o input transformation:
    x1 = group transformer of the inputs applied to x (if any); x2 = variable-level transformers applied to x1 in variable order (if any);
    y = func(algo, x2); y1 = inverse group transformer of the outputs applied to y (if any); result = inverse variable-level transformers applied to y1."""

    targets = (SDF + ".format_transform.format_transform_.wrapper",)
    prop = ("C18",)
    c18 = True
    closure = {"func": FUNC, "transform_inputs": True, "transform_outputs": True}
    params = {"algo": ALGO, "input_data": TNd}
    returns = TNd

    def requires(self, c):
        return _fmt_requires(c)

    def ensures(self, c):
        a, x = c.old.algo, c.old.input_data
        T = a.transformer
        sizes = sizes_term(a.learning_set.variable_names_to_n_components)
        x1 = z3.If(T.member[IN_G], t_f(T.vals[IN_G], x), x)
        iv, ov = a._input_variables_to_transform, a._output_variables_to_transform
        x2 = z3.If(iv.n != 0, variable_transform(_tdict(a), x1, names_term(a.input_names), sizes, names_term(iv), z3.BoolVal(False)), x1)
        y = wrapped(a.c18_state, x2)
        y1 = z3.If(T.member[OUT_G], t_g(T.vals[OUT_G], y), y)
        y2 = variable_transform(_tdict(a), y1, names_term(a.output_names), sizes_term(a._transformed_output_sizes), names_term(ov), z3.BoolVal(True))
        return [("inverse-output-transform-of-raw-function-of-input-transform", c.result == z3.If(z3.And(z3.Not(T.member[OUT_G]), ov.n == 0), y, y2))]


def _eye_cols(x):
    return EYE(GETITEM(SHAPE(x), val_of_int(z3.IntVal(1))))


@register
class TransformJacobianWrapper(Contract):
    """predict_jacobian(x) = JI_out(y) @ (J_raw(x') @ J_in(x)) with x' = input group transformer applied to x, y = raw prediction at x',
    J_in = Jacobian of the input group transformer at x (identity without one), JI_out = Jacobian of the inverse output group transformer at y
    (omitted without one): the chain rule for predict = g_out o raw o f_in, the matrix product being uninterpreted (non-commutative).
    NotImplementedError exactly when variable-level transformers are used."""

    targets = (RDF + ".transform_jacobian.wrapper",)
    prop = ("C18",)
    c18 = True
    closure = {"func": FUNC}
    params = {"algo": ALGO, "input_data": TNd}
    returns = TNd
    raises = {"NotImplementedError": lambda c: z3.Or(c.old.algo._input_variables_to_transform.n != 0, c.old.algo._output_variables_to_transform.n != 0)}

    def requires(self, c):
        return _groups(c)

    def ensures(self, c):
        a, x = c.old.algo, c.old.input_data
        T = a.transformer
        has_in, has_out = T.member[IN_G], T.member[OUT_G]
        j_in = z3.If(has_in, t_j(T.vals[IN_G], x), _eye_cols(x))
        x1 = z3.If(has_in, t_f(T.vals[IN_G], x), x)
        j = MATMUL(wrapped(a.c18_state, x1), j_in)
        y = raw_predict(a.c18_state, x1)
        return [("chain-rule-product", c.result == z3.If(has_out, MATMUL(t_ji(T.vals[OUT_G], y), j), j))]


# ---------------------------------------------------------------------------- BaseTransformer._use_2d_array: the nested wrapper g
from contracts.c18_transformers import BT  # noqa: E402

DEC = TFun("c18_decorated_method", [TVal, TNd], TNd)
dec2 = z3.Function("c18_decorated_value", F2.sort(), INT, INT, REAL)  # f(self, X)[s, j] for the non-Jacobian methods
dec3 = z3.Function("c18_decorated_jacobian", F2.sort(), INT, INT, INT, REAL)  # f(self, X)[s, j, k] for the Jacobian methods
dec_cols = z3.Function("c18_decorated_output_dimension", F2.sort(), INT)


def _call_decorated(ex, fv, args, kwargs, lineno):
    if len(args) != 2 or kwargs:
        from pyvc.values import Unsupported

        raise Unsupported("decorated method called with extra arguments")
    A = _arr(ex, args[1])
    Xt = arr2_term(A)
    p = dec_cols(Xt)
    ex.st.assume(p >= 0)
    ex.assumed.add("the decorated method f(self, X) of a transformer is a deterministic function of the 2-D data X (fixed parameters), returning one row / one matrix per sample")
    if ex.contract.closure_names["c18_decorated_method"] in ("compute_jacobian", "compute_jacobian_inverse"):
        return _NP.new(ex, "f", (A.shape[0], p, A.shape[1]), _NP.lam(3, lambda s, j, k: dec3(Xt, s, j, k)))
    return _NP.new(ex, "f", (A.shape[0], p), _NP.lam(2, lambda s, j: dec2(Xt, s, j)))


FUNV_MODELS["c18_decorated_method"] = _call_decorated


class _Use2d(Contract):
    targets = (BT + "._use_2d_array.g",)
    prop = ("C18",)
    numpy = "precise"
    c18 = True
    frame_arrays = True
    closure = {"f": DEC}
    NAME, RANK = "transform", 2
    returns = None

    def ensures(self, c):
        x, r = c.old.data, c.result
        jac = self.NAME in ("compute_jacobian", "compute_jacobian_inverse")
        fn = dec3 if jac else dec2
        if getattr(getattr(r, "obj", None), "rank", None) != (3 if jac else 2) - (1 if x.obj.rank == 1 else 0):
            return [("result-has-the-dimension-of-the-data", z3.BoolVal(False))]
        if x.obj.rank == 2:
            Xt = arr2_term(x.obj)
            idx = [z3.Int(f"i{q}!u2") for q in range(3 if jac else 2)]
            rng = z3.And(*[z3.And(0 <= v, v < ln(r, q)) for q, v in enumerate(idx)])
            return [("shape", z3.And(ln(r, 0) == ln(x, 0), ln(r, 1) == dec_cols(Xt), *([ln(r, 2) == ln(x, 1)] if jac else []))),
                    ("value-of-the-decorated-method", forall_pat(idx, z3.Implies(rng, el(r, *idx) == fn(Xt, *idx)), el(r, *idx)))]
        # 1-D data: the method is evaluated on the (1, d) matrix whose row is the data, and its first (only) row / matrix is returned
        Xt = F2.dt.mk(z3.IntVal(1), ln(x, 0), _NP.lam(2, lambda i, j: x.obj.elems[j]))
        idx = [z3.Int(f"i{q}!u1") for q in range(2 if jac else 1)]
        rng = z3.And(*[z3.And(0 <= v, v < ln(r, q)) for q, v in enumerate(idx)])
        return [("shape", z3.And(ln(r, 0) == dec_cols(Xt), *([ln(r, 1) == ln(x, 0)] if jac else []))),
                ("first-row-of-the-decorated-method-on-the-one-row-matrix", forall_pat(idx, z3.Implies(rng, el(r, *idx) == fn(Xt, z3.IntVal(0), *idx)), el(r, *idx)))]


def _use2d_variant(name, rank):
    jac = name in ("compute_jacobian", "compute_jacobian_inverse")
    out_rank = (3 if jac else 2) - (1 if rank == 1 else 0)
    attrs = {"NAME": name, "RANK": rank, "closure_names": {"c18_decorated_method": name}, "params": {"self": TObj(BT), "data": TArr("f", rank)},
             "returns": TArr("f", out_rank), "variant": f"{name}-{rank}d",
             "__doc__": "g(self, data) = f(self, data) for 2-D data; for 1-D data the first row (matrix) of f(self, atleast_2d(data))."}
    return register(type(f"Use2d_{name}_{rank}d", (_Use2d,), attrs))


for _n in ("transform", "compute_jacobian"):
    for _r in (2, 1):
        _use2d_variant(_n, _r)
