"""C20 - the pickled state of a file-based cache: ``HDF5Cache.__getstate__`` / ``__setstate__`` / ``__init__``.

"Restoring never shares in-memory mutable state with the original (a file-based cache stays attached to its file)":
the state of an HDF5 cache carries the path of ITS file and the path of ITS node in that file (``__hdf_node_path``, which differs from
the cache name as soon as the cache was given a name), its tolerance and its name, and nothing else; ``__setstate__`` re-runs
``__init__`` with exactly these values, so that the restored cache is attached to the same file (same real path: the file handler is a
multiton per real path) and to the same node.  Attribute values are opaque picklable values (``pyvc/plug_json.py: TPv``).

Verified on the real source: ``HDF5Cache.__init__``, ``__getstate__``, ``__setstate__`` (through ``self.__class__.__init__(self, **state)``,
the keyword binding of a symbolic dictionary follows CPython) and the round-trip lemma over their contracts.
ASSUMED (out of reach: multiprocessing manager, h5py): ``BaseFullCache.__init__`` sets the tolerance and the name and creates the
hash table / counters / locks without touching the attributes of the subclass; ``_read_hashes`` only loads the hash table and the two counters;
``HDF5FileSingleton(path)`` is the handler of the file ``realpath(path)``.
"""
from __future__ import annotations

import z3

from pyvc import plug_json as J
from pyvc.contract import Contract, register, schema
from pyvc.values import TDict, TObj, TStr, str_lit

HC = "gemseo.caches.hdf5_cache.HDF5Cache"
FS = J.HDF_SINGLETON
KEY = HC + "#c20"
PV = J.TPv
STATE = TDict(TStr, PV)

schema(FS + "#c20", {"hdf_file_path": PV})
schema(KEY, {
    "_tolerance": PV,
    "name": PV,
    "_HDF5Cache__hdf_node_path": PV,
    "_HDF5Cache__hdf_file": TObj(FS, schema_key=FS + "#c20"),
    "_c20_tables": PV,  # ghost stand-in for the hash table, counters and locks created by BaseFullCache.__init__ / loaded by _read_hashes
})

CLASS_NAME = J.pv_of_str(str_lit("HDF5Cache"))
KEYS = ("tolerance", "hdf_file_path", "hdf_node_path", "name")


def lit(s):
    return str_lit(s)


def node(o):
    return o._HDF5Cache__hdf_node_path


def file_path(o):
    return o._HDF5Cache__hdf_file.hdf_file_path


def axioms():
    return [(f"pv{i}", f) for i, f in enumerate(J.pv_axioms())]


class _HC(Contract):
    prop = ("C20",)
    self_schema = KEY

    def requires(self, c):
        return axioms()


# ---------------------------------------------------------------------------- assumed collaborators
@register
class FullCacheInit(_HC):
    targets = ("gemseo.caches.base_full_cache.BaseFullCache.__init__",)
    params = {"tolerance": PV, "name": PV}
    modifies = ("self",)
    trusted = True
    description = ("assumed (multiprocessing manager / Value / RLock out of reach): sets _tolerance and name (`name or class name`), creates the hash table, "
                   "the two counters and the locks; the attributes of the subclass (HDF file handler, node path) are not touched")

    def ensures(self, c):
        s0, s1 = c.old.self, c.new.self
        return [("tolerance", s1._tolerance == c.old.tolerance),
                ("name", s1.name == z3.If(J.pv_truthy(c.old.name), c.old.name, CLASS_NAME)),
                ("node-path-kept", node(s1) == node(s0)),
                ("file-kept", z3.BoolVal(s1._HDF5Cache__hdf_file.ref == s0._HDF5Cache__hdf_file.ref))]


@register
class ReadHashes(_HC):
    targets = (HC + "._read_hashes",)
    modifies = ("self",)
    trusted = True
    description = "assumed (h5py): loads the hash table of the node `__hdf_node_path` of the file and the two counters; tolerance, name, node path and file handler are not touched"

    def ensures(self, c):
        s0, s1 = c.old.self, c.new.self
        return [("tolerance-kept", s1._tolerance == s0._tolerance), ("name-kept", s1.name == s0.name), ("node-path-kept", node(s1) == node(s0)),
                ("file-kept", z3.BoolVal(s1._HDF5Cache__hdf_file.ref == s0._HDF5Cache__hdf_file.ref))]


# ---------------------------------------------------------------------------- verified
def attached(o, path, node_path):
    """The cache is attached to the node ``node_path`` of the file ``realpath(str(path))``."""
    return [("attached-to-the-node", node(o) == node_path),
            ("attached-to-the-file", J.pv_realpath(file_path(o)) == J.pv_realpath(J.pv_str(path))),
            ("file-path-is-a-string", J.pv_is_str(file_path(o)))]


@register
class Init(_HC):
    """A new cache is attached to the given node of the given file; its name is the given one, else the node path."""

    targets = (HC + ".__init__",)
    params = {"tolerance": PV, "name": PV, "hdf_file_path": PV, "hdf_node_path": PV}
    modifies = ("self",)

    def ensures(self, c):
        s1 = c.new.self
        o = c.old
        return attached(s1, o.hdf_file_path, o.hdf_node_path) + [
            ("tolerance", s1._tolerance == o.tolerance),
            ("name", s1.name == z3.If(J.pv_truthy(o.name), o.name, z3.If(J.pv_truthy(o.hdf_node_path), o.hdf_node_path, CLASS_NAME)))]


@register
class GetState(_HC):
    """state = {tolerance, path of THIS cache's file, path of THIS cache's node, name}, computed from the current attributes; read-only."""

    targets = (HC + ".__getstate__",)
    returns = STATE

    def ensures(self, c):
        s, r = c.old.self, c.result
        k = z3.Const("k!hgs", TStr.sort())
        return [("keys", z3.ForAll([k], r.has(k) == z3.Or(*[k == lit(x) for x in KEYS]))),
                ("tolerance", r.get(lit("tolerance")) == s._tolerance),
                ("file-path:of-this-cache", r.get(lit("hdf_file_path")) == file_path(s)),
                ("node-path:of-this-cache", r.get(lit("hdf_node_path")) == node(s)),
                ("name", r.get(lit("name")) == s.name)]


def _st(c, key, default):
    s = c.old.state
    return z3.If(s.has(lit(key)), s.get(lit(key)), default)


def _only_known_keys(c):
    k = z3.Const("k!hss", TStr.sort())
    return z3.ForAll([k], z3.Implies(c.old.state.has(k), z3.Or(*[k == lit(x) for x in KEYS])))


@register
class SetState(_HC):
    """The restored cache is attached to the file and to the node recorded in the state (defaults of __init__ for absent entries)."""

    targets = (HC + ".__setstate__",)
    params = {"state": STATE}
    modifies = ("self",)
    raises = {"TypeError": lambda c: z3.Not(_only_known_keys(c))}  # a state with an entry that is no parameter of __init__

    def ensures(self, c):
        s1 = c.new.self
        path = _st(c, "hdf_file_path", J.pv_of_str(lit("cache.hdf5")))
        node_path = _st(c, "hdf_node_path", J.pv_of_str(lit("node")))
        name = _st(c, "name", J.pv_of_str(lit("")))
        return attached(s1, path, node_path) + [
            ("tolerance", s1._tolerance == _st(c, "tolerance", J.pv_of_real(z3.RealVal(0)))),
            ("name", s1.name == z3.If(J.pv_truthy(name), name, z3.If(J.pv_truthy(node_path), node_path, CLASS_NAME))),
            ("state-not-modified", _same_state(c))]


def _same_state(c):
    k = z3.Const("k!hst", TStr.sort())
    a, b = c.old.state, c.new.state
    return z3.And(a.n == b.n, z3.ForAll([k], z3.And(a.has(k) == b.has(k), z3.Implies(a.has(k), a.get(k) == b.get(k)))))


@register
class RoundTrip(Contract):
    """restore(state(cache)) is attached to the same file (same real path) and the same node, with the same tolerance and name -
    from the postconditions of __getstate__ and __setstate__ (no code is executed here).  Class invariant used: the path held by the file handler
    is a str and the name of a cache is never empty (both established by __init__, see Init)."""

    lemma = True
    targets = ()
    prop = ("C20",)

    def lemmas(self):
        A = J.AttrS
        tol0, name0, node0, path0 = (z3.Const(n, A) for n in ("rt_tol0", "rt_name0", "rt_node0", "rt_path0"))
        tol1, name1, node1, path1 = (z3.Const(n, A) for n in ("rt_tol1", "rt_name1", "rt_node1", "rt_path1"))
        M = z3.Const("rt_hstate_member", z3.ArraySort(TStr.sort(), z3.BoolSort()))
        V = z3.Const("rt_hstate_vals", z3.ArraySort(TStr.sort(), A))
        k = z3.Const("k!hrt", TStr.sort())
        get = lambda key, default: z3.If(M[lit(key)], V[lit(key)], default)  # noqa: E731
        p, n_, nm = get("hdf_file_path", J.pv_of_str(lit("cache.hdf5"))), get("hdf_node_path", J.pv_of_str(lit("node"))), get("name", J.pv_of_str(lit("")))
        hyps = J.pv_axioms() + [
            # GetState
            z3.ForAll([k], M[k] == z3.Or(*[k == lit(x) for x in KEYS])),
            V[lit("tolerance")] == tol0, V[lit("hdf_file_path")] == path0, V[lit("hdf_node_path")] == node0, V[lit("name")] == name0,
            # SetState
            node1 == n_, J.pv_realpath(path1) == J.pv_realpath(J.pv_str(p)), tol1 == get("tolerance", J.pv_of_real(z3.RealVal(0))),
            name1 == z3.If(J.pv_truthy(nm), nm, z3.If(J.pv_truthy(n_), n_, CLASS_NAME)),
            # class invariant of the original
            J.pv_is_str(path0), J.pv_truthy(name0),
        ]
        H = z3.And(*hyps)
        return [("round-trip:same-node", z3.Implies(H, node1 == node0)),
                ("round-trip:same-file", z3.Implies(H, J.pv_realpath(path1) == J.pv_realpath(path0))),
                ("round-trip:same-tolerance", z3.Implies(H, tol1 == tol0)),
                ("round-trip:same-name", z3.Implies(H, name1 == name0)),
                ("round-trip:no-TypeError", z3.Implies(H, z3.And(z3.ForAll([k], z3.Implies(M[k], z3.Or(*[k == lit(x) for x in KEYS]))), J.pv_is_str(J.pv_str(p)))))]


# ============================================================================ JSONGrammar.__getstate__ / __setstate__
# "exposes the same grammars, defaults ... before and after it has been used": the state of a JSON grammar carries the CURRENT defaults as a plain dictionary
# under the key "defaults" - whatever the instance dictionary holds under that key (a restored grammar does keep a stray "defaults" entry, see SetState) -
# the cached schema computed from the current definition, and every other attribute but the two that cannot be pickled (validator, schema builder).
# Instance-dictionary model (pyvc/plug_json.py): `self.__dict__` is a dict of opaque picklable values; the contents of the Defaults object and of the schema
# builder are read through the ghost heaps json_defaults / json_bprops.
JGQ = J.JG
JKEY = J.JG_DICT
IDICT = TDict(TStr, PV)
schema(JKEY, {"__dict__": IDICT})
A_VALIDATOR, A_BUILDER, A_SCHEMA, A_DEFAULTS = "_JSONGrammar__validator", "_JSONGrammar__schema_builder", "_JSONGrammar__schema", "_defaults"
S_DEFAULTS = "defaults"


def idict(o):
    return o.__getattr__("__dict__")


def defaults_heap(c, new=False):
    return (c.new_ghost if new else c.old_ghost)("json_defaults", J.DefaultsHeap)


class _JGS(Contract):
    prop = ("C20",)
    self_schema = JKEY


@register
class SchemaForState(_JGS):
    targets = (JGQ + ".schema",)
    returns = PV
    modifies = ("self",)
    trusted = True
    description = ("assumed here, verified under C15 (contracts/c15_json_grammar.py: Schema): `schema` only fills the cached schema attribute (from the current definition); "
                   "no other attribute, no default value changes")

    def ensures(self, c):
        d0, d1 = idict(c.old.self), idict(c.new.self)
        k = z3.Const("k!sfs", TStr.sort())
        return [("only-the-cached-schema", z3.ForAll([k], z3.Implies(k != lit(A_SCHEMA), z3.And(d1.has(k) == d0.has(k), d1.get(k) == d0.get(k))))),
                ("cached-schema-exists", d1.has(lit(A_SCHEMA))), ("size", d1.n >= d0.n)]


@register
class JsonGetState(_JGS):
    """state = instance dictionary (after the schema cache was filled) minus validator, builder and `_defaults`, plus "defaults": the CURRENT defaults as a plain dict."""

    targets = (JGQ + ".__getstate__",)
    returns = IDICT
    modifies = ("self",)

    def requires(self, c):
        d = idict(c.old.self)
        # a constructed grammar (BaseGrammar.__init__ -> clear() creates them; __setstate__ too)
        return [(f"constructed:{a}", d.has(lit(a))) for a in (A_VALIDATOR, A_BUILDER, A_DEFAULTS)]

    def ensures(self, c):
        d0, d1, r = idict(c.old.self), idict(c.new.self), c.result
        k = z3.Const("k!jgs", TStr.sort())
        dropped = lambda x: z3.Or(x == lit(A_VALIDATOR), x == lit(A_BUILDER), x == lit(A_DEFAULTS))  # noqa: E731
        current_defaults = defaults_heap(c)[d0.get(lit(A_DEFAULTS))]
        return [
            ("keys", z3.ForAll([k], r.has(k) == z3.Or(k == lit(S_DEFAULTS), z3.And(d1.has(k), z3.Not(dropped(k)))))),
            ("defaults:the-current-defaults-as-a-plain-dict", r.get(lit(S_DEFAULTS)) == J.pv_of_data(current_defaults)),
            ("other-entries:current-attributes", z3.ForAll([k], z3.Implies(z3.And(r.has(k), k != lit(S_DEFAULTS)), r.get(k) == d1.get(k)))),
            ("object:only-the-cached-schema-may-change", z3.ForAll([k], z3.Implies(k != lit(A_SCHEMA), z3.And(d1.has(k) == d0.has(k), d1.get(k) == d0.get(k))))),
            ("object:defaults-unchanged", defaults_heap(c, new=True) == defaults_heap(c)),
        ]


CLEAR_KEYS = ("to_namespaced", "from_namespaced", A_DEFAULTS, "_required_names", A_BUILDER, A_VALIDATOR, A_SCHEMA)


def builder_heap(c, new=False):
    return (c.new_ghost if new else c.old_ghost)("json_bprops", J.BuilderHeap)


def own_required_heap(c, new=False):
    return (c.new_ghost if new else c.old_ghost)("json_breq", J.BuilderHeap)


def _cleared(k):
    return z3.Or(*[k == lit(x) for x in CLEAR_KEYS])


@register
class ClearForState(_JGS):
    targets = ("gemseo.core.grammars.base_grammar.BaseGrammar.clear",)
    modifies = ("self", "ghost:json_defaults", "ghost:json_bprops", "ghost:json_breq")
    trusted = True
    description = ("assumed here, verified under C15 (BGClear for the template, c15_json_grammar.Clear for JSONGrammar._clear): clear() (re)creates the namespace maps, an "
                   "EMPTY Defaults bound to this grammar, empty required names, a new EMPTY schema builder and the two empty caches; other attributes are kept")

    def ensures(self, c):
        d0, d1 = idict(c.old.self), idict(c.new.self)
        k = z3.Const("k!cfs", TStr.sort())
        empty_defaults = J.DATA_T.acc(0)(defaults_heap(c, new=True)[d1.get(lit(A_DEFAULTS))])
        return [("attributes", z3.ForAll([k], d1.has(k) == z3.Or(d0.has(k), _cleared(k)))),
                ("others-kept", z3.ForAll([k], z3.Implies(z3.And(d0.has(k), z3.Not(_cleared(k))), d1.get(k) == d0.get(k)))),
                ("empty-defaults", z3.And(z3.ForAll([k], z3.Not(empty_defaults[k])), J.DATA_T.acc(2)(defaults_heap(c, new=True)[d1.get(lit(A_DEFAULTS))]) == 0)),
                ("empty-builder", z3.ForAll([k], z3.And(z3.Not(builder_heap(c, new=True)[d1.get(lit(A_BUILDER))][k]), z3.Not(own_required_heap(c, new=True)[d1.get(lit(A_BUILDER))][k]))))]


def _state_from_getstate(s):
    """Shape of a state produced by __getstate__ (JsonGetState: keys): it carries the schema and the defaults and none of the three dropped attributes."""
    return [("state:has-the-schema", s.has(lit(A_SCHEMA))), ("state:has-the-defaults", s.has(lit(S_DEFAULTS))),
            ("state:without-validator-builder-defaults-object", z3.And(z3.Not(s.has(lit(A_VALIDATOR))), z3.Not(s.has(lit(A_BUILDER))), z3.Not(s.has(lit(A_DEFAULTS)))))]


def _defaults_are_elements(c):
    s = c.old.state
    k = z3.Const("k!dae", TStr.sort())
    src = J.pv_data(s.get(lit(S_DEFAULTS)))
    return z3.ForAll([k], z3.Implies(J.DATA_T.acc(0)(src)[k], J.pv_schema_props(s.get(lit(A_SCHEMA)))[k]))


@register
class JsonSetState(_JGS):
    """Every entry of the state becomes an attribute, the builder is refilled from the pickled schema - its own required set is emptied again, the required names
    live in the restored RequiredNames - and the defaults of the restored grammar are exactly those of the state (KeyError exactly when a default is bound to a name the pickled schema does not list)."""

    targets = (JGQ + ".__setstate__",)
    params = {"state": IDICT}
    modifies = ("self", "state", "ghost:json_defaults", "ghost:json_bprops", "ghost:json_breq")
    raises = {"KeyError": lambda c: z3.Not(_defaults_are_elements(c))}

    def requires(self, c):
        return _state_from_getstate(c.old.state)

    def ensures(self, c):
        d0, d1, s0 = idict(c.old.self), idict(c.new.self), c.old.state
        k = z3.Const("k!jss", TStr.sort())
        restored = defaults_heap(c, new=True)[d1.get(lit(A_DEFAULTS))]
        src = J.pv_data(s0.get(lit(S_DEFAULTS)))
        D = J.DATA_T
        return [
            ("attributes", z3.ForAll([k], d1.has(k) == z3.Or(d0.has(k), _cleared(k), s0.has(k)))),
            ("attributes:from-the-state", z3.ForAll([k], z3.Implies(s0.has(k), d1.get(k) == s0.get(k)))),
            ("defaults:exactly-those-of-the-state", z3.ForAll([k], z3.And(D.acc(0)(restored)[k] == D.acc(0)(src)[k], z3.Implies(D.acc(0)(src)[k], D.acc(1)(restored)[k] == D.acc(1)(src)[k])))),
            ("defaults:size", D.acc(2)(restored) == D.acc(2)(src)),
            ("elements:those-of-the-pickled-schema", z3.ForAll([k], builder_heap(c, new=True)[d1.get(lit(A_BUILDER))][k] == J.pv_schema_props(s0.get(lit(A_SCHEMA)))[k])),
            # (034df8e) the builder refilled from the pickled schema keeps none of the required names that schema lists: this is the IDLE part of the cache validity
            # under which c15_json_grammar.Schema proves that the next `schema` / `to_json` list exactly the CURRENT required names
            ("builder:own-required-set-is-empty", z3.ForAll([k], z3.Not(own_required_heap(c, new=True)[d1.get(lit(A_BUILDER))][k]))),
        ]
