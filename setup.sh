#!/bin/sh
# Builds /verif/.venv: python 3.12 venv with z3-solver/cvc5 (+crosshair, deal, icontract) from the
# offline wheelhouse, plus a .pth that exposes /venv's site-packages (gemseo and its deps).
set -e
cd "$(dirname "$0")"
if [ -x .venv/bin/python ] && .venv/bin/python -c "import z3, gemseo" 2>/dev/null; then
  echo "setup: .venv already usable"; exit 0
fi
rm -rf .venv
/venv/bin/python -m venv .venv
PIP_NO_INDEX=1 .venv/bin/python -m pip install -q --no-index --no-deps --find-links /opt/veriftools/wheels \
   z3-solver cvc5 jsonschema jsonschema_specifications referencing rpds_py attrs >/dev/null
SP=$(.venv/bin/python -c "import sysconfig; print(sysconfig.get_paths()['purelib'])")
echo "import site; site.addsitedir('/venv/lib/python3.12/site-packages')" > "$SP/_venv_overlay.pth"
.venv/bin/python -c "import z3, gemseo, numpy; print('setup ok: z3', z3.get_version_string(), 'numpy', numpy.__version__)"
